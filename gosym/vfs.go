package main

// Environment doubles for the zip package: a virtual file system behind the
// os functions that zip.Unzip / zip.CheckZip use, and archive/zip readers and
// writers over virtual archives. Paths and entry names may have symbolic
// bytes; existence checks compare them with solver-decided equalities.
//
// Contract modelled (the documented one): os.OpenFile with O_CREATE|O_EXCL
// fails if the path exists (as a file, or as a directory created explicitly or
// as a parent by MkdirAll); os.MkdirAll fails if the path or one of its
// parents is an existing file; archive/zip delivers entry names, declared
// sizes and contents unchanged. Every call that creates something is logged so
// that the harness can check that nothing was created outside a directory.

import (
	"fmt"
	"go/types"

	"golang.org/x/tools/go/ssa"
)

type vfsZipEntry struct {
	name    Str
	size    *Term // declared UncompressedSize64 (64 bit)
	data    []*Term
	dirMode bool
}

type vfsNode struct {
	path  Str
	isDir bool
	data  []*Term
	zip   []vfsZipEntry // non-nil: the file is a zip archive with these entries
}

type vfsHandle struct {
	node *vfsNode
	pos  int
}

type vfsState struct {
	nodes    []*vfsNode
	created  []Str // every path handed to MkdirAll / OpenFile(O_CREATE)
	handles  map[Ptr]*vfsHandle
	zipFiles map[Ptr]*vfsZipEntry
	writers  map[Ptr]*vfsWriter
	fws      map[Ptr]*vfsZipEntry
	archives [][]vfsZipEntry
}

type vfsReader struct {
	data  []*Term
	pos   int
	short bool
}

func (in *Interp) vfsReaders() map[Ptr]*vfsReader {
	m, _ := in.pathState["vfsreaders"].(map[Ptr]*vfsReader)
	if m == nil {
		m = map[Ptr]*vfsReader{}
		in.pathState["vfsreaders"] = m
	}
	return m
}

type vfsWriter struct {
	w       Value
	entries []*vfsZipEntry
}

func (in *Interp) vfs() *vfsState {
	s, _ := in.pathState["vfs"].(*vfsState)
	if s == nil {
		s = &vfsState{handles: map[Ptr]*vfsHandle{}, zipFiles: map[Ptr]*vfsZipEntry{}, writers: map[Ptr]*vfsWriter{}, fws: map[Ptr]*vfsZipEntry{}}
		in.pathState["vfs"] = s
	}
	return s
}

func (in *Interp) decide(t *Term) bool {
	if t.IsConst() {
		return t.c != 0
	}
	return in.w.branchT(t)
}

func (in *Interp) strSame(a, b Str) bool {
	if a.Len() != b.Len() {
		return false
	}
	return in.decide(in.strEq(a, b))
}

// strUnder: is p strictly below directory d (p has prefix d + "/")?
func (in *Interp) strUnder(p, d Str) bool {
	if p.Len() <= d.Len()+1 {
		return false
	}
	c := in.tt.And(in.strEq(p.Slice(0, d.Len()), d), in.tt.Eq(p.At(d.Len()), mkConst(8, '/')))
	return in.decide(c)
}

func (in *Interp) vfsFind(p Str) *vfsNode {
	for _, n := range in.vfs().nodes {
		if in.strSame(n.path, p) {
			return n
		}
	}
	return nil
}

func (in *Interp) mkErr(msg string) Iface {
	pkg := in.prog.ImportedPackage("errors")
	t := pkg.Type("errorString")
	cell := new(Value)
	*cell = Struct{mkStr(msg)}
	return Iface{T: types.NewPointer(t.Type()), V: Ptr(cell)}
}

func (in *Interp) namedStruct(pkgPath, name string) (types.Type, Struct) {
	pkg := in.prog.ImportedPackage(pkgPath)
	if pkg == nil {
		panic(unsupported("package " + pkgPath + " not loaded"))
	}
	t := pkg.Type(name)
	if t == nil {
		panic(unsupported(pkgPath + "." + name + " not found"))
	}
	return t.Type(), zero(t.Type()).(Struct)
}

func fieldIndex(t types.Type, name string) int {
	st := t.Underlying().(*types.Struct)
	for i := 0; i < st.NumFields(); i++ {
		if st.Field(i).Name() == name {
			return i
		}
	}
	panic(unsupported("field " + name + " not found in " + t.String()))
}

func (in *Interp) newOSFile(n *vfsNode) Value {
	t, s := in.namedStruct("os", "File")
	cell := new(Value)
	*cell = s
	in.vfs().handles[Ptr(cell)] = &vfsHandle{node: n}
	_ = t
	return Ptr(cell)
}

func (in *Interp) handleOf(v Value) *vfsHandle {
	p, _ := v.(Ptr)
	h := in.vfs().handles[p]
	if h == nil {
		panic(unsupported("os.File not created by the virtual file system"))
	}
	return h
}

func byteSliceOf(ts []*Term) Slice {
	return termsToSlice(ts)
}

func init() {
	reg("os.Open", func(in *Interp, c *frame, fn *ssa.Function, a []Value) Value {
		n := in.vfsFind(a[0].(Str))
		if n == nil {
			return Tuple{Ptr(nil), in.mkErr("open: no such file or directory")}
		}
		return Tuple{in.newOSFile(n), Iface{}}
	})
	reg("(*os.File).Close", func(in *Interp, c *frame, fn *ssa.Function, a []Value) Value { return Iface{} })
	reg("(*os.File).Stat", func(in *Interp, c *frame, fn *ssa.Function, a []Value) Value {
		h := in.handleOf(a[0])
		t, s := in.namedStruct("os", "fileStat")
		size := uint64(len(h.node.data))
		if h.node.zip != nil && size == 0 {
			size = 1 << 10
		}
		s[fieldIndex(t, "size")] = mkConst(64, size)
		s[fieldIndex(t, "name")] = mkStr("file")
		cell := new(Value)
		*cell = s
		return Tuple{Iface{T: types.NewPointer(t), V: Ptr(cell)}, Iface{}}
	})
	reg("(*os.File).Write", func(in *Interp, c *frame, fn *ssa.Function, a []Value) Value {
		h := in.handleOf(a[0])
		bs := termsOf(a[1])
		h.node.data = append(h.node.data, bs...)
		return Tuple{mkConst(64, uint64(len(bs))), Iface{}}
	})
	reg("(*os.File).ReadFrom", func(in *Interp, c *frame, fn *ssa.Function, a []Value) Value {
		h := in.handleOf(a[0])
		src := a[1].(Iface)
		read := in.methodOf(src.T, "Read")
		if read == nil {
			panic(unsupported("ReadFrom: source has no Read method"))
		}
		total := 0
		for iter := 0; iter < 1<<16; iter++ {
			buf := in.makeSlice(types.Typ[types.Uint8], 64, 64)
			res := in.call(c, read, []Value{src.V, buf}).(Tuple)
			nT := res[0].(*Term)
			if !nT.IsConst() {
				panic(unsupported("ReadFrom: symbolic read count"))
			}
			n := int(nT.c)
			for i := 0; i < n; i++ {
				h.node.data = append(h.node.data, buf.A[buf.Off+i].(*Term))
			}
			total += n
			if e := res[1].(Iface); e.T != nil {
				// io.EOF ends the copy without error; anything else is reported
				if in.isEOF(e) {
					return Tuple{mkConst(64, uint64(total)), Iface{}}
				}
				return Tuple{mkConst(64, uint64(total)), e}
			}
		}
		panic(unsupported("ReadFrom: source never ends"))
	})
	reg("os.ReadDir", func(in *Interp, c *frame, fn *ssa.Function, a []Value) Value {
		dir := a[0].(Str)
		n := 0
		for _, nd := range in.vfs().nodes {
			if in.strUnder(nd.path, dir) {
				n++
			}
		}
		arr := make([]Value, n)
		for i := range arr {
			arr[i] = Iface{}
		}
		if n == 0 && in.vfsFind(dir) == nil {
			return Tuple{Slice{}, in.mkErr("readdir: no such file or directory")}
		}
		return Tuple{Slice{A: arr, Len: n, Cap: n, nonNil: true}, Iface{}}
	})
	reg("os.MkdirAll", func(in *Interp, c *frame, fn *ssa.Function, a []Value) Value {
		p := a[0].(Str)
		s := in.vfs()
		s.created = append(s.created, p)
		for _, nd := range s.nodes {
			if !nd.isDir && (in.strSame(nd.path, p) || in.strUnder(p, nd.path)) {
				return in.mkErr("mkdir: not a directory")
			}
		}
		if in.vfsFind(p) == nil {
			s.nodes = append(s.nodes, &vfsNode{path: p, isDir: true})
		}
		return Iface{}
	})
	reg("os.OpenFile", func(in *Interp, c *frame, fn *ssa.Function, a []Value) Value {
		p := a[0].(Str)
		flag := a[1].(*Term)
		if !flag.IsConst() {
			panic(unsupported("os.OpenFile with symbolic flags"))
		}
		const oCreate, oExcl = 0x40, 0x80
		s := in.vfs()
		if flag.c&oCreate == 0 {
			n := in.vfsFind(p)
			if n == nil {
				return Tuple{Ptr(nil), in.mkErr("open: no such file or directory")}
			}
			return Tuple{in.newOSFile(n), Iface{}}
		}
		s.created = append(s.created, p)
		for _, nd := range s.nodes {
			if in.strSame(nd.path, p) || (nd.isDir && in.strUnder(nd.path, p)) {
				if flag.c&oExcl != 0 || nd.isDir {
					return Tuple{Ptr(nil), in.mkErr("open: file exists")}
				}
				nd.data = nil
				return Tuple{in.newOSFile(nd), Iface{}}
			}
			if !nd.isDir && in.strUnder(p, nd.path) {
				return Tuple{Ptr(nil), in.mkErr("open: not a directory")}
			}
		}
		n := &vfsNode{path: p}
		s.nodes = append(s.nodes, n)
		return Tuple{in.newOSFile(n), Iface{}}
	})

	// ---- archive/zip reader over a virtual archive ----
	reg("archive/zip.NewReader", func(in *Interp, c *frame, fn *ssa.Function, a []Value) Value {
		src, ok := a[0].(Iface)
		if !ok {
			panic(unsupported("zip.NewReader: not an interface"))
		}
		h := in.handleOf(src.V)
		entries := h.node.zip
		if entries == nil {
			// bytes written by the virtual zip.Writer: "VZIP" + archive number
			d := h.node.data
			found := false
			if len(d) >= 8 && d[0].IsConst() && d[0].c == 'V' && d[1].c == 'Z' && d[2].c == 'I' && d[3].c == 'P' {
				id := int(d[4].c)
				if id < len(in.vfs().archives) {
					entries = in.vfs().archives[id]
					found = true
				}
			}
			if !found {
				return Tuple{Ptr(nil), in.mkErr("zip: not a valid zip file")}
			}
		}
		rt, rs := in.namedStruct("archive/zip", "Reader")
		ft, _ := in.namedStruct("archive/zip", "File")
		ht, _ := in.namedStruct("archive/zip", "FileHeader")
		files := make([]Value, len(entries))
		for i := range entries {
			e := &entries[i]
			fs := zero(ft).(Struct)
			hd := fs[fieldIndex(ft, "FileHeader")].(Struct)
			hd[fieldIndex(ht, "Name")] = e.name
			hd[fieldIndex(ht, "UncompressedSize64")] = e.size
			hd[fieldIndex(ht, "UncompressedSize")] = in.tt.Extract(e.size, 31, 0)
			if e.dirMode {
				hd[fieldIndex(ht, "CreatorVersion")] = mkConst(16, 3<<8)
				hd[fieldIndex(ht, "ExternalAttrs")] = mkConst(32, 0o40755<<16)
			}
			cell := new(Value)
			*cell = fs
			in.vfs().zipFiles[Ptr(cell)] = e
			files[i] = Ptr(cell)
		}
		rs[fieldIndex(rt, "File")] = Slice{A: files, Len: len(files), Cap: len(files), nonNil: true}
		rcell := new(Value)
		*rcell = rs
		return Tuple{Ptr(rcell), Iface{}}
	})
	reg("(*archive/zip.File).Open", func(in *Interp, c *frame, fn *ssa.Function, a []Value) Value {
		e := in.vfs().zipFiles[a[0].(Ptr)]
		if e == nil {
			panic(unsupported("zip.File not created by the virtual archive"))
		}
		// archive/zip reports io.ErrUnexpectedEOF at the end of an entry whose
		// content is shorter than its declared size; longer content is delivered
		// (the caller has to bound it)
		short := in.decide(in.tt.Cmp(OULt, mkConst(64, uint64(len(e.data))), e.size))
		t, st := in.namedStruct("archive/zip", "checksumReader")
		cell := new(Value)
		*cell = st
		in.vfsReaders()[Ptr(cell)] = &vfsReader{data: e.data, short: short}
		return Tuple{Iface{T: types.NewPointer(t), V: Ptr(cell)}, Iface{}}
	})
	reg("(*archive/zip.checksumReader).Read", func(in *Interp, c *frame, fn *ssa.Function, a []Value) Value {
		r := in.vfsReaders()[a[0].(Ptr)]
		buf := a[1].(Slice)
		if r.pos >= len(r.data) {
			name := "EOF"
			if r.short {
				name = "ErrUnexpectedEOF"
			}
			g := in.prog.ImportedPackage("io").Members[name].(*ssa.Global)
			return Tuple{mkConst(64, 0), in.load(in.global(g))}
		}
		n := len(r.data) - r.pos
		if n > buf.Len {
			n = buf.Len
		}
		for i := 0; i < n; i++ {
			buf.A[buf.Off+i] = r.data[r.pos+i]
		}
		r.pos += n
		return Tuple{mkConst(64, uint64(n)), Iface{}}
	})
	reg("(*archive/zip.checksumReader).Close", func(in *Interp, c *frame, fn *ssa.Function, a []Value) Value { return Iface{} })

	// ---- archive/zip writer ----
	reg("archive/zip.NewWriter", func(in *Interp, c *frame, fn *ssa.Function, a []Value) Value {
		_, s := in.namedStruct("archive/zip", "Writer")
		cell := new(Value)
		*cell = s
		in.vfs().writers[Ptr(cell)] = &vfsWriter{w: a[0]}
		return Ptr(cell)
	})
	reg("(*archive/zip.Writer).Create", func(in *Interp, c *frame, fn *ssa.Function, a []Value) Value {
		w := in.vfs().writers[a[0].(Ptr)]
		if w == nil {
			panic(unsupported("zip.Writer not created by zip.NewWriter double"))
		}
		e := &vfsZipEntry{name: a[1].(Str)}
		w.entries = append(w.entries, e)
		t, s := in.namedStruct("archive/zip", "fileWriter")
		cell := new(Value)
		*cell = s
		in.vfs().fws[Ptr(cell)] = e
		return Tuple{Iface{T: types.NewPointer(t), V: Ptr(cell)}, Iface{}}
	})
	reg("(*archive/zip.fileWriter).Write", func(in *Interp, c *frame, fn *ssa.Function, a []Value) Value {
		e := in.vfs().fws[a[0].(Ptr)]
		bs := termsOf(a[1])
		e.data = append(e.data, bs...)
		return Tuple{mkConst(64, uint64(len(bs))), Iface{}}
	})
	reg("(*archive/zip.Writer).Close", func(in *Interp, c *frame, fn *ssa.Function, a []Value) Value {
		w := in.vfs().writers[a[0].(Ptr)]
		s := in.vfs()
		var es []vfsZipEntry
		for _, e := range w.entries {
			e.size = mkConst(64, uint64(len(e.data)))
			es = append(es, *e)
		}
		id := len(s.archives)
		s.archives = append(s.archives, es)
		token := []*Term{mkConst(8, 'V'), mkConst(8, 'Z'), mkConst(8, 'I'), mkConst(8, 'P'), mkConst(8, uint64(id)), mkConst(8, 0), mkConst(8, 0), mkConst(8, 0)}
		dst := w.w.(Iface)
		wr := in.methodOf(dst.T, "Write")
		if wr == nil {
			panic(unsupported("zip.Writer: destination has no Write"))
		}
		in.call(c, wr, []Value{dst.V, byteSliceOf(token)})
		return Iface{}
	})

	// ---- harness API ----
	harnessAPI["vFSTempDir"] = func(in *Interp, c *frame, fn *ssa.Function, a []Value) Value {
		return mkStr("/vt/" + argStr(a[0]))
	}
	harnessAPI["vFSCleanup"] = func(in *Interp, c *frame, fn *ssa.Function, a []Value) Value { return nil }
	// vFSPutZip(path string, names []string, sizes []int64, datas [][]byte, dirMode []bool)
	harnessAPI["vFSPutZip"] = func(in *Interp, c *frame, fn *ssa.Function, a []Value) Value {
		names := sliceElems(a[1])
		sizes := sliceElems(a[2])
		datas := sliceElems(a[3])
		dirs := sliceElems(a[4])
		es := make([]vfsZipEntry, len(names))
		for i := range names {
			es[i] = vfsZipEntry{name: names[i].(Str), size: sizes[i].(*Term), data: termsOf(datas[i]), dirMode: dirs[i].(*Term).c != 0}
		}
		if es == nil {
			es = []vfsZipEntry{}
		}
		in.vfs().nodes = append(in.vfs().nodes, &vfsNode{path: a[0].(Str), zip: es})
		return nil
	}
	// vFSPutFile(path string, data []byte)
	harnessAPI["vFSPutFile"] = func(in *Interp, c *frame, fn *ssa.Function, a []Value) Value {
		in.vfs().nodes = append(in.vfs().nodes, &vfsNode{path: a[0].(Str), data: termsOf(a[1])})
		return nil
	}
	// vFSFiles(dir string) (rel []string, data [][]byte): regular files below dir
	harnessAPI["vFSFiles"] = func(in *Interp, c *frame, fn *ssa.Function, a []Value) Value {
		dir := a[0].(Str)
		var rels, datas []Value
		for _, nd := range in.vfs().nodes {
			if nd.isDir || nd.zip != nil || !in.strUnder(nd.path, dir) {
				continue
			}
			rels = append(rels, nd.path.Slice(dir.Len()+1, nd.path.Len()))
			datas = append(datas, byteSliceOf(nd.data))
		}
		return Tuple{Slice{A: rels, Len: len(rels), Cap: len(rels), nonNil: true}, Slice{A: datas, Len: len(datas), Cap: len(datas), nonNil: true}}
	}
	// vFSAllInside(dir string) bool: everything created so far is dir itself or below it
	harnessAPI["vFSAllInside"] = func(in *Interp, c *frame, fn *ssa.Function, a []Value) Value {
		dir := a[0].(Str)
		res := tTrue
		for _, p := range in.vfs().created {
			var inside *Term
			switch {
			case p.Len() == dir.Len():
				inside = in.strEq(p, dir)
			case p.Len() > dir.Len()+1:
				inside = in.tt.And(in.strEq(p.Slice(0, dir.Len()), dir), in.tt.Eq(p.At(dir.Len()), mkConst(8, '/')))
				// no ".." element after the directory prefix
				inside = in.tt.And(inside, in.noDotDot(p, dir.Len()+1))
			default:
				inside = tFalse
			}
			res = in.tt.And(res, inside)
		}
		return res
	}
}

// ---- directory walking (filepath.Walk, os.ReadFile, zip.OpenReader) ----

// relTo returns the part of p below directory dir. The directory "." contains
// every relative path.
func (in *Interp) relTo(p, dir Str) (Str, bool) {
	if dir.IsConcrete() && dir.Concrete() == "." {
		if p.Len() == 0 || in.decide(in.tt.Eq(p.At(0), mkConst(8, '/'))) {
			return Str{}, false
		}
		if p.IsConcrete() && p.Concrete() == "." {
			return Str{}, false
		}
		return p, true
	}
	if !in.strUnder(p, dir) {
		return Str{}, false
	}
	return p.Slice(dir.Len()+1, p.Len()), true
}

// vfsStat classifies a path: an explicit node, or an implicit directory (some
// node lies below it).
func (in *Interp) vfsStat(p Str) (exists, isDir bool, n *vfsNode) {
	if n = in.vfsFind(p); n != nil {
		return true, n.isDir, n
	}
	for _, nd := range in.vfs().nodes {
		if _, ok := in.relTo(nd.path, p); ok {
			return true, true, nil
		}
	}
	return false, false, nil
}

func (in *Interp) vfsFileInfo(p Str, isDir bool, size int) Value {
	t, s := in.namedStruct("os", "fileStat")
	// base name: after the last slash (paths handed to Lstat are concrete enough to find it)
	base := p
	for i := p.Len() - 1; i >= 0; i-- {
		if in.decide(in.tt.Eq(p.At(i), mkConst(8, '/'))) {
			base = p.Slice(i+1, p.Len())
			break
		}
	}
	s[fieldIndex(t, "name")] = base
	s[fieldIndex(t, "size")] = mkConst(64, uint64(size))
	mode := uint64(0644)
	if isDir {
		mode = 1<<31 | 0755 // fs.ModeDir
	}
	s[fieldIndex(t, "mode")] = mkConst(32, mode)
	cell := new(Value)
	*cell = s
	return Iface{T: types.NewPointer(t), V: Ptr(cell)}
}

// vfsChildren lists the names of the immediate children of dir.
func (in *Interp) vfsChildren(dir Str) []Str {
	var out []Str
	for _, nd := range in.vfs().nodes {
		rest, ok := in.relTo(nd.path, dir)
		if !ok {
			continue
		}
		child := rest
		for i := 0; i < rest.Len(); i++ {
			if in.decide(in.tt.Eq(rest.At(i), mkConst(8, '/'))) {
				child = rest.Slice(0, i)
				break
			}
		}
		dup := false
		for _, o := range out {
			if in.strSame(o, child) {
				dup = true
				break
			}
		}
		if !dup && child.Len() > 0 {
			out = append(out, child)
		}
	}
	return out
}

func init() {
	lstat := func(in *Interp, c *frame, fn *ssa.Function, a []Value) Value {
		p := a[0].(Str)
		ok, isDir, n := in.vfsStat(p)
		if !ok {
			return Tuple{Iface{}, in.mkErr("lstat: no such file or directory")}
		}
		size := 0
		if n != nil {
			size = len(n.data)
		}
		return Tuple{in.vfsFileInfo(p, isDir, size), Iface{}}
	}
	reg("os.Lstat", lstat)
	reg("os.Stat", lstat)
	// os.Open on a directory that exists only implicitly
	openPrev := intrinsics["os.Open"]
	reg("os.Open", func(in *Interp, c *frame, fn *ssa.Function, a []Value) Value {
		p := a[0].(Str)
		if in.vfsFind(p) == nil {
			if ok, isDir, _ := in.vfsStat(p); ok && isDir {
				return Tuple{in.newOSFile(&vfsNode{path: p, isDir: true}), Iface{}}
			}
		}
		return openPrev(in, c, fn, a)
	})
	reg("(*os.File).Readdirnames", func(in *Interp, c *frame, fn *ssa.Function, a []Value) Value {
		h := in.handleOf(a[0])
		names := in.vfsChildren(h.node.path)
		arr := make([]Value, len(names))
		for i, n := range names {
			arr[i] = n
		}
		return Tuple{Slice{A: arr, Len: len(arr), Cap: len(arr), nonNil: true}, Iface{}}
	})
	reg("(*os.File).Read", func(in *Interp, c *frame, fn *ssa.Function, a []Value) Value {
		h := in.handleOf(a[0])
		buf := a[1].(Slice)
		if h.pos >= len(h.node.data) {
			g := in.prog.ImportedPackage("io").Members["EOF"].(*ssa.Global)
			return Tuple{mkConst(64, 0), in.load(in.global(g))}
		}
		n := len(h.node.data) - h.pos
		if n > buf.Len {
			n = buf.Len
		}
		for i := 0; i < n; i++ {
			buf.A[buf.Off+i] = h.node.data[h.pos+i]
		}
		h.pos += n
		return Tuple{mkConst(64, uint64(n)), Iface{}}
	})
	reg("(*os.File).WriteTo", func(in *Interp, c *frame, fn *ssa.Function, a []Value) Value {
		h := in.handleOf(a[0])
		dst := a[1].(Iface)
		wr := in.methodOf(dst.T, "Write")
		if wr == nil {
			panic(unsupported("WriteTo: destination has no Write"))
		}
		rest := h.node.data[h.pos:]
		h.pos = len(h.node.data)
		if len(rest) == 0 {
			return Tuple{mkConst(64, 0), Iface{}}
		}
		res := in.call(c, wr, []Value{dst.V, byteSliceOf(rest)}).(Tuple)
		return Tuple{res[0], res[1]}
	})
	reg("os.ReadFile", func(in *Interp, c *frame, fn *ssa.Function, a []Value) Value {
		n := in.vfsFind(a[0].(Str))
		if n == nil || n.isDir {
			return Tuple{Slice{}, in.mkErr("open: no such file or directory")}
		}
		return Tuple{byteSliceOf(append([]*Term{}, n.data...)), Iface{}}
	})
	reg("archive/zip.OpenReader", func(in *Interp, c *frame, fn *ssa.Function, a []Value) Value {
		n := in.vfsFind(a[0].(Str))
		if n == nil {
			return Tuple{Ptr(nil), in.mkErr("open: no such file or directory")}
		}
		f := in.newOSFile(n)
		pkg := in.prog.ImportedPackage("archive/zip")
		ft := types.NewPointer(in.prog.ImportedPackage("os").Type("File").Type())
		res := in.call(c, pkg.Func("NewReader"), []Value{Iface{T: ft, V: f}, mkConst(64, 0)}).(Tuple)
		if e := res[1].(Iface); e.T != nil {
			return Tuple{Ptr(nil), e}
		}
		rct, rcs := in.namedStruct("archive/zip", "ReadCloser")
		rcs[fieldIndex(rct, "Reader")] = copyVal(*(res[0].(Ptr)))
		cell := new(Value)
		*cell = rcs
		return Tuple{Ptr(cell), Iface{}}
	})
	reg("(*archive/zip.ReadCloser).Close", func(in *Interp, c *frame, fn *ssa.Function, a []Value) Value { return Iface{} })
}

// noDotDot: the path has no ".." element from position from on.
func (in *Interp) noDotDot(p Str, from int) *Term {
	tt := in.tt
	res := tTrue
	n := p.Len()
	isSlash := func(i int) *Term {
		if i < from || i >= n {
			return tTrue // boundary
		}
		return tt.Eq(p.At(i), mkConst(8, '/'))
	}
	for i := from; i+1 < n; i++ {
		dd := tt.And(tt.Eq(p.At(i), mkConst(8, '.')), tt.Eq(p.At(i+1), mkConst(8, '.')))
		var before, after *Term
		if i == from {
			before = tTrue
		} else {
			before = isSlash(i - 1)
		}
		if i+2 >= n {
			after = tTrue
		} else {
			after = isSlash(i + 2)
		}
		res = tt.And(res, tt.Not(tt.And(dd, tt.And(before, after))))
	}
	return res
}

func (in *Interp) isEOF(e Iface) bool {
	pkg := in.prog.ImportedPackage("io")
	if pkg == nil {
		return false
	}
	g, _ := pkg.Members["EOF"].(*ssa.Global)
	if g == nil {
		return false
	}
	cur := in.load(in.global(g))
	ci, ok := cur.(Iface)
	if !ok {
		return false
	}
	c := in.eq(e, ci)
	return c.IsConst() && c.c != 0
}

var _ = fmt.Sprintf

func init() {
	harnessAPI["vFSChdir"] = func(in *Interp, c *frame, fn *ssa.Function, a []Value) Value { return nil }
}
