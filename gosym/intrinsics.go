package main

import (
	"sync"
	"fmt"
	"go/types"
	"runtime"
	"strings"

	"golang.org/x/tools/go/ssa"
)

type intrinsic func(in *Interp, caller *frame, fn *ssa.Function, args []Value) Value

var intrinsics = map[string]intrinsic{}
var intrinsicCache = map[*ssa.Function]intrinsic{}
var harnessAPI = map[string]intrinsic{}

func runtimeStack(buf []byte) int { return runtime.Stack(buf, false) }

func reg(name string, f intrinsic) { intrinsics[name] = f }

// fnName caches ssa.Function.String(), which formats types on every call.
var fnNames sync.Map

func fnName(fn *ssa.Function) string {
	if s, ok := fnNames.Load(fn); ok {
		return s.(string)
	}
	s := fn.String()
	fnNames.Store(fn, s)
	return s
}

type intrEntry struct {
	h    intrinsic
	name string
}

var intrCache sync.Map // *ssa.Function -> intrEntry

func (in *Interp) lookupIntrinsic(fn *ssa.Function) intrinsic {
	if e, ok := intrCache.Load(fn); ok {
		ent := e.(intrEntry)
		if ent.name != "" && !in.intrSeen[ent.name] {
			in.intrSeen[ent.name] = true
		}
		return ent.h
	}
	h, name := in.lookupIntrinsic0(fn)
	intrCache.Store(fn, intrEntry{h, name})
	if name != "" {
		in.intrSeen[name] = true
	}
	return h
}

func (in *Interp) lookupIntrinsic0(fn *ssa.Function) (intrinsic, string) {
	name := fn.Name()
	if len(name) > 1 && name[0] == 'v' && name[1] >= 'A' && name[1] <= 'Z' && fn.Signature.Recv() == nil {
		if h, ok := harnessAPI[name]; ok {
			return h, ""
		}
	}
	full := fnName(fn)
	if h, ok := intrinsics[full]; ok {
		return h, full
	}
	if o := fn.Origin(); o != nil {
		if h, ok := intrinsics[fnName(o)]; ok {
			return h, fnName(o)
		}
	}
	return nil, ""
}

func (in *Interp) panicString(v Value) string {
	switch v := v.(type) {
	case Iface:
		if v.T == nil {
			return "panic(nil)"
		}
		if s, ok := v.V.(Str); ok {
			return s.String()
		}
		// error or Stringer: try Error()
		if m := in.prog.LookupMethod(v.T, nil, "Error"); m != nil {
			var res string
			func() {
				defer func() {
					if r := recover(); r != nil {
						res = fmt.Sprintf("<%v>", v.T)
					}
				}()
				if s, ok := in.call(nil, m, []Value{v.V}).(Str); ok {
					res = s.String()
				}
			}()
			return res
		}
		return fmt.Sprintf("<%v>", v.T)
	}
	return fmt.Sprintf("%v", v)
}

func argStr(v Value) string {
	s, ok := v.(Str)
	if !ok || !s.IsConcrete() {
		panic(unsupported("harness API needs a constant string argument"))
	}
	return s.Concrete()
}

func argInt(v Value) int {
	t, ok := v.(*Term)
	if !ok || !t.IsConst() {
		panic(unsupported("harness API needs a constant integer argument"))
	}
	return int(t.sval())
}

func termsToSlice(ts []*Term) Slice {
	a := make([]Value, len(ts))
	for i, t := range ts {
		a[i] = t
	}
	return Slice{A: a, Len: len(a), Cap: len(a), nonNil: true}
}

func init() {
	h := harnessAPI
	h["vByte"] = func(in *Interp, c *frame, fn *ssa.Function, a []Value) Value {
		return in.w.drawScalar(argStr(a[0]), "byte", 8)
	}
	h["vBool"] = func(in *Interp, c *frame, fn *ssa.Function, a []Value) Value {
		return in.w.drawScalar(argStr(a[0]), "bool", 0)
	}
	h["vInt"] = func(in *Interp, c *frame, fn *ssa.Function, a []Value) Value {
		return in.w.drawScalar(argStr(a[0]), "int", 64)
	}
	h["vInt64"] = h["vInt"]
	h["vUint64"] = func(in *Interp, c *frame, fn *ssa.Function, a []Value) Value {
		return in.w.drawScalar(argStr(a[0]), "uint", 64)
	}
	h["vRune"] = func(in *Interp, c *frame, fn *ssa.Function, a []Value) Value {
		return in.w.drawScalar(argStr(a[0]), "rune", 32)
	}
	h["vChoice"] = func(in *Interp, c *frame, fn *ssa.Function, a []Value) Value {
		return mkConst(64, uint64(in.w.drawChoice(argStr(a[0]), argInt(a[1]))))
	}
	h["vString"] = func(in *Interp, c *frame, fn *ssa.Function, a []Value) Value {
		n := argInt(a[1])
		if n == 0 {
			in.w.draws = append(in.w.draws, Draw{Name: argStr(a[0]), Kind: "string"})
			return Str{}
		}
		return Str{b: in.w.drawBytes(argStr(a[0]), "string", n)}
	}
	h["vBytes"] = func(in *Interp, c *frame, fn *ssa.Function, a []Value) Value {
		n := argInt(a[1])
		return termsToSlice(in.w.drawBytes(argStr(a[0]), "bytes", n))
	}
	h["vHash"] = func(in *Interp, c *frame, fn *ssa.Function, a []Value) Value {
		t := in.w.drawScalar(argStr(a[0]), "hash", 256)
		arr := make(Arr, 32)
		for i := range arr {
			arr[i] = in.tt.Extract(t, 8*i+7, 8*i)
		}
		return arr
	}
	h["vAssume"] = func(in *Interp, c *frame, fn *ssa.Function, a []Value) Value {
		what := "assume"
		if c != nil {
			what = "assume@" + in.callSite(c)
		}
		in.w.assume(a[0].(*Term), what)
		return nil
	}
	h["vAssert"] = func(in *Interp, c *frame, fn *ssa.Function, a []Value) Value {
		in.w.assert(argStr(a[0]), a[1].(*Term), "")
		return nil
	}
	h["vReach"] = func(in *Interp, c *frame, fn *ssa.Function, a []Value) Value {
		in.w.reach[argStr(a[0])]++
		return nil
	}
	h["vNative"] = func(in *Interp, c *frame, fn *ssa.Function, a []Value) Value { return tFalse }
	h["vKnown"] = func(in *Interp, c *frame, fn *ssa.Function, a []Value) Value {
		in.w.knownOn = map[string]bool{argStr(a[0]): true}
		return nil
	}
	h["vKnownEnd"] = func(in *Interp, c *frame, fn *ssa.Function, a []Value) Value {
		in.w.knownOn = map[string]bool{}
		return nil
	}
	h["vMapOrder"] = func(in *Interp, c *frame, fn *ssa.Function, a []Value) Value {
		in.mapPermute = a[0].(*Term).c != 0
		return nil
	}
	h["vMatch"] = func(in *Interp, c *frame, fn *ssa.Function, a []Value) Value {
		return in.regexMatch(argStr(a[0]), a[1].(Str))
	}
	h["vConcrete"] = func(in *Interp, c *frame, fn *ssa.Function, a []Value) Value {
		// vConcrete(x int, lo, hi int) int: fork over the feasible values
		return mkConst(64, uint64(in.concreteInt(a[0], argInt(a[1]), argInt(a[2]), "vConcrete")))
	}
	h["vIte"] = func(in *Interp, c *frame, fn *ssa.Function, a []Value) Value {
		// vIte(c bool, x, y T) for scalar T without forking
		return in.tt.Ite(a[0].(*Term), a[1].(*Term), a[2].(*Term))
	}
	h["vAnd"] = func(in *Interp, c *frame, fn *ssa.Function, a []Value) Value {
		return in.tt.And(a[0].(*Term), a[1].(*Term))
	}
	h["vOr"] = func(in *Interp, c *frame, fn *ssa.Function, a []Value) Value {
		return in.tt.Or(a[0].(*Term), a[1].(*Term))
	}
	h["vImplies"] = func(in *Interp, c *frame, fn *ssa.Function, a []Value) Value {
		return in.tt.Implies(a[0].(*Term), a[1].(*Term))
	}
	h["vLog"] = func(in *Interp, c *frame, fn *ssa.Function, a []Value) Value {
		if in.trace || verbose {
			fmt.Printf("vLog: %v\n", describe(a[0]))
		}
		return nil
	}

	// ---- sync: sequentialised ----
	nop := func(in *Interp, c *frame, fn *ssa.Function, a []Value) Value { return nil }
	for _, n := range []string{
		"(*sync.Mutex).Lock", "(*sync.Mutex).Unlock", "(*sync.RWMutex).Lock", "(*sync.RWMutex).Unlock",
		"(*sync.RWMutex).RLock", "(*sync.RWMutex).RUnlock", "(*sync.WaitGroup).Add", "(*sync.WaitGroup).Done",
		"(*sync.WaitGroup).Wait", "runtime.KeepAlive", "runtime.Gosched",
	} {
		reg(n, nop)
	}
	reg("(*sync.Mutex).TryLock", func(in *Interp, c *frame, fn *ssa.Function, a []Value) Value { return tTrue })
	reg("(*sync.Once).Do", func(in *Interp, c *frame, fn *ssa.Function, a []Value) Value {
		p := a[0].(Ptr)
		if in.onceDone[p] {
			return nil
		}
		in.onceDone[p] = true
		in.call(c, a[1], nil)
		return nil
	})

	// ---- internal/bytealg and friends ----
	reg("internal/bytealg.MakeNoZero", func(in *Interp, c *frame, fn *ssa.Function, a []Value) Value {
		n := argInt(a[0])
		return in.makeSlice(types.Typ[types.Uint8], n, n)
	})
	reg("internal/bytealg.IndexByteString", func(in *Interp, c *frame, fn *ssa.Function, a []Value) Value {
		return in.indexByte(a[0].(Str), a[1].(*Term))
	})
	reg("internal/bytealg.IndexByte", func(in *Interp, c *frame, fn *ssa.Function, a []Value) Value {
		return in.indexByte(bytesToStr(a[0]), a[1].(*Term))
	})
	reg("strings.IndexByte", intrinsics["internal/bytealg.IndexByteString"])
	reg("bytes.IndexByte", intrinsics["internal/bytealg.IndexByte"])
	reg("strings.Index", func(in *Interp, c *frame, fn *ssa.Function, a []Value) Value {
		return mkConst(64, uint64(int64(in.findFirst(a[0].(Str), 0, a[1].(Str)))))
	})
	reg("bytes.Index", func(in *Interp, c *frame, fn *ssa.Function, a []Value) Value {
		return mkConst(64, uint64(int64(in.findFirst(bytesToStr(a[0]), 0, bytesToStr(a[1])))))
	})
	reg("strings.LastIndex", func(in *Interp, c *frame, fn *ssa.Function, a []Value) Value {
		return mkConst(64, uint64(int64(in.findLast(a[0].(Str), a[1].(Str)))))
	})
	reg("bytes.LastIndex", func(in *Interp, c *frame, fn *ssa.Function, a []Value) Value {
		return mkConst(64, uint64(int64(in.findLast(bytesToStr(a[0]), bytesToStr(a[1])))))
	})
	reg("strings.LastIndexByte", func(in *Interp, c *frame, fn *ssa.Function, a []Value) Value {
		return mkConst(64, uint64(int64(in.findLast(a[0].(Str), strFromTerms([]*Term{a[1].(*Term)})))))
	})
	reg("bytes.LastIndexByte", func(in *Interp, c *frame, fn *ssa.Function, a []Value) Value {
		return mkConst(64, uint64(int64(in.findLast(bytesToStr(a[0]), strFromTerms([]*Term{a[1].(*Term)})))))
	})
	reg("strings.Count", func(in *Interp, c *frame, fn *ssa.Function, a []Value) Value {
		return in.count(a[0].(Str), a[1].(Str))
	})
	reg("bytes.Count", func(in *Interp, c *frame, fn *ssa.Function, a []Value) Value {
		return in.count(bytesToStr(a[0]), bytesToStr(a[1]))
	})
	reg("internal/bytealg.CountString", func(in *Interp, c *frame, fn *ssa.Function, a []Value) Value {
		return in.count(a[0].(Str), strFromTerms([]*Term{a[1].(*Term)}))
	})
	reg("internal/bytealg.Count", func(in *Interp, c *frame, fn *ssa.Function, a []Value) Value {
		return in.count(bytesToStr(a[0]), strFromTerms([]*Term{a[1].(*Term)}))
	})
	reg("bytes.Equal", func(in *Interp, c *frame, fn *ssa.Function, a []Value) Value {
		return in.strEq(bytesToStr(a[0]), bytesToStr(a[1]))
	})
	reg("internal/bytealg.Equal", intrinsics["bytes.Equal"])
	reg("strings.Compare", func(in *Interp, c *frame, fn *ssa.Function, a []Value) Value {
		return in.compare(a[0].(Str), a[1].(Str))
	})
	reg("internal/bytealg.CompareString", intrinsics["strings.Compare"])
	reg("bytes.Compare", func(in *Interp, c *frame, fn *ssa.Function, a []Value) Value {
		return in.compare(bytesToStr(a[0]), bytesToStr(a[1]))
	})
	reg("internal/bytealg.Compare", intrinsics["bytes.Compare"])
	reg("internal/stringslite.Index", intrinsics["strings.Index"])
	reg("internal/stringslite.IndexByte", intrinsics["strings.IndexByte"])

	// ---- strings.Builder (uses unsafe) ----
	reg("(*strings.Builder).WriteString", func(in *Interp, c *frame, fn *ssa.Function, a []Value) Value {
		in.builderAppend(a[0].(Ptr), sliceElems(a[1]))
		return Tuple{mkConst(64, uint64(a[1].(Str).Len())), Iface{}}
	})
	reg("(*strings.Builder).Write", func(in *Interp, c *frame, fn *ssa.Function, a []Value) Value {
		in.builderAppend(a[0].(Ptr), sliceElems(a[1]))
		return Tuple{mkConst(64, uint64(a[1].(Slice).Len)), Iface{}}
	})
	reg("(*strings.Builder).WriteByte", func(in *Interp, c *frame, fn *ssa.Function, a []Value) Value {
		in.builderAppend(a[0].(Ptr), []Value{a[1]})
		return Iface{}
	})
	reg("(*strings.Builder).WriteRune", func(in *Interp, c *frame, fn *ssa.Function, a []Value) Value {
		s := in.conv(types.Typ[types.String], types.Typ[types.Int32], a[1]).(Str)
		in.builderAppend(a[0].(Ptr), sliceElems(s))
		return Tuple{mkConst(64, uint64(s.Len())), Iface{}}
	})
	reg("(*strings.Builder).String", func(in *Interp, c *frame, fn *ssa.Function, a []Value) Value {
		return bytesToStr(in.builderBuf(a[0].(Ptr)))
	})
	reg("(*strings.Builder).Len", func(in *Interp, c *frame, fn *ssa.Function, a []Value) Value {
		return mkConst(64, uint64(in.builderBuf(a[0].(Ptr)).Len))
	})
	reg("(*strings.Builder).Cap", func(in *Interp, c *frame, fn *ssa.Function, a []Value) Value {
		return mkConst(64, uint64(in.builderBuf(a[0].(Ptr)).Cap))
	})
	reg("(*strings.Builder).Grow", nop)
	reg("(*strings.Builder).Reset", func(in *Interp, c *frame, fn *ssa.Function, a []Value) Value {
		st := (*a[0].(Ptr)).(Struct)
		st[1] = Slice{}
		return nil
	})

	// ---- math/bits ----
	reg("math/bits.TrailingZeros64", func(in *Interp, c *frame, fn *ssa.Function, a []Value) Value {
		x := a[0].(*Term)
		if x.IsConst() {
			n := 0
			for n < 64 && x.c&(1<<uint(n)) == 0 {
				n++
			}
			return mkConst(64, uint64(n))
		}
		tt := in.tt
		res := mkConst(64, 64)
		for i := 63; i >= 0; i-- {
			res = tt.Ite(tt.Eq(tt.Extract(x, i, i), mkConst(1, 1)), mkConst(64, uint64(i)), res)
		}
		return res
	})

	// ---- lazyregexp: the pattern text comes from the tree being checked ----
	lrx := "(*golang.org/x/mod/internal/lazyregexp.Regexp)."
	pat := func(in *Interp, p Value) string {
		st := (*p.(Ptr)).(Struct)
		s, ok := st[0].(Str)
		if !ok || !s.IsConcrete() {
			panic(unsupported("lazyregexp with non-constant pattern"))
		}
		return s.Concrete()
	}
	reg("golang.org/x/mod/internal/lazyregexp.New", func(in *Interp, c *frame, fn *ssa.Function, a []Value) Value {
		cell := new(Value)
		*cell = zero(mustDeref(fn.Signature.Results().At(0).Type()))
		(*cell).(Struct)[0] = a[0]
		return Ptr(cell)
	})
	reg(lrx+"MatchString", func(in *Interp, c *frame, fn *ssa.Function, a []Value) Value {
		return in.regexMatch(pat(in, a[0]), a[1].(Str))
	})
	strSlice := func(ss []string) Value {
		if ss == nil {
			return Slice{}
		}
		arr := make([]Value, len(ss))
		for i, s := range ss {
			arr[i] = mkStr(s)
		}
		return Slice{A: arr, Len: len(arr), Cap: len(arr), nonNil: true}
	}
	concreteArg := func(v Value, what string) string {
		s := v.(Str)
		if !s.IsConcrete() {
			panic(unsupported(what + " on a symbolic string"))
		}
		return s.Concrete()
	}
	reg(lrx+"FindStringSubmatch", func(in *Interp, c *frame, fn *ssa.Function, a []Value) Value {
		if s := a[1].(Str); !s.IsConcrete() && !s.opaque {
			m := in.regexSubmatch(c, pat(in, a[0]), s)
			if m == nil {
				return Slice{}
			}
			arr := make([]Value, len(m))
			for i, x := range m {
				arr[i] = x
			}
			return Slice{A: arr, Len: len(arr), Cap: len(arr), nonNil: true}
		}
		return strSlice(compileRE(pat(in, a[0])).re.FindStringSubmatch(concreteArg(a[1], "regexp FindStringSubmatch")))
	})
	reg(lrx+"FindString", func(in *Interp, c *frame, fn *ssa.Function, a []Value) Value {
		return mkStr(compileRE(pat(in, a[0])).re.FindString(concreteArg(a[1], "regexp FindString")))
	})
	reg(lrx+"ReplaceAllString", func(in *Interp, c *frame, fn *ssa.Function, a []Value) Value {
		return mkStr(compileRE(pat(in, a[0])).re.ReplaceAllString(concreteArg(a[1], "regexp ReplaceAllString"), concreteArg(a[2], "regexp ReplaceAllString")))
	})
	reg(lrx+"FindAllString", func(in *Interp, c *frame, fn *ssa.Function, a []Value) Value {
		return strSlice(compileRE(pat(in, a[0])).re.FindAllString(concreteArg(a[1], "regexp FindAllString"), argInt(a[2])))
	})

	// unsafe helpers used by strings/bytes for zero-copy conversions
	reg("unsafe.String", func(in *Interp, c *frame, fn *ssa.Function, a []Value) Value {
		panic(unsupported("unsafe.String"))
	})
}

var verbose bool

func describe(v Value) string {
	switch v := v.(type) {
	case Iface:
		return fmt.Sprintf("iface(%v, %s)", v.T, describe(v.V))
	case Str:
		return fmt.Sprintf("%q", v.String())
	case *Term:
		return v.String()
	case Slice:
		var sb strings.Builder
		sb.WriteString("[")
		for i := 0; i < v.Len; i++ {
			if i > 0 {
				sb.WriteString(" ")
			}
			sb.WriteString(describe(v.A[v.Off+i]))
		}
		sb.WriteString("]")
		return sb.String()
	case Struct:
		var sb strings.Builder
		sb.WriteString("{")
		for i, f := range v {
			if i > 0 {
				sb.WriteString(" ")
			}
			sb.WriteString(describe(f))
		}
		sb.WriteString("}")
		return sb.String()
	case Ptr:
		if v == nil {
			return "nil"
		}
		return "&" + describe(*v)
	}
	return fmt.Sprintf("%v", v)
}

func (in *Interp) callSite(c *frame) string {
	return c.fn.Name()
}

func bytesToStr(v Value) Str {
	switch v := v.(type) {
	case Str:
		return v
	case Slice:
		b := make([]*Term, v.Len)
		for i := 0; i < v.Len; i++ {
			b[i] = v.A[v.Off+i].(*Term)
		}
		return strFromTerms(b)
	}
	panic(fmt.Sprintf("bytesToStr of %T", v))
}

func (in *Interp) builderBuf(p Ptr) Slice {
	st := (*p).(Struct)
	return st[1].(Slice)
}

func (in *Interp) builderAppend(p Ptr, elems []Value) {
	st := (*p).(Struct)
	st[1] = in.appendSlice(types.NewSlice(types.Typ[types.Uint8]), st[1].(Slice), elems)
}

// matchAt builds the condition that needle occurs in hay at position i.
func (in *Interp) matchAt(hay Str, i int, needle Str) *Term {
	res := tTrue
	for j := 0; j < needle.Len(); j++ {
		res = in.tt.And(res, in.tt.Eq(hay.At(i+j), needle.At(j)))
		if res == tFalse {
			break
		}
	}
	return res
}

// findFirst returns the first index >= from at which needle occurs, forking
// on the position; -1 if none.
func (in *Interp) findFirst(hay Str, from int, needle Str) int {
	if hay.opaque || needle.opaque {
		panic(unsupported("search in opaque string"))
	}
	if hay.b == nil && needle.b == nil {
		i := strings.Index(hay.s[from:], needle.s)
		if i < 0 {
			return -1
		}
		return i + from
	}
	n := needle.Len()
	for i := from; i+n <= hay.Len(); i++ {
		c := in.matchAt(hay, i, needle)
		if c.IsConst() {
			if c.c != 0 {
				return i
			}
			continue
		}
		if in.w.branchT(c) {
			return i
		}
	}
	return -1
}

func (in *Interp) findLast(hay Str, needle Str) int {
	if hay.opaque || needle.opaque {
		panic(unsupported("search in opaque string"))
	}
	if hay.b == nil && needle.b == nil {
		return strings.LastIndex(hay.s, needle.s)
	}
	n := needle.Len()
	for i := hay.Len() - n; i >= 0; i-- {
		c := in.matchAt(hay, i, needle)
		if c.IsConst() {
			if c.c != 0 {
				return i
			}
			continue
		}
		if in.w.branchT(c) {
			return i
		}
	}
	return -1
}

func (in *Interp) count(s, sep Str) Value {
	if sep.Len() == 0 {
		// utf8.RuneCountInString(s) + 1
		n := 0
		pos := 0
		for pos < s.Len() {
			_, size := in.decodeRune(s, pos)
			pos += size
			n++
		}
		return mkConst(64, uint64(n+1))
	}
	if sep.Len() == 1 && !(s.b == nil && sep.b == nil) {
		// sum of byte equalities, without forking
		tt := in.tt
		acc := mkConst(64, 0)
		for i := 0; i < s.Len(); i++ {
			acc = tt.Bin(OAdd, acc, tt.Ite(tt.Eq(s.At(i), sep.At(0)), mkConst(64, 1), mkConst(64, 0)))
		}
		return acc
	}
	n := 0
	pos := 0
	for {
		i := in.findFirst(s, pos, sep)
		if i < 0 {
			break
		}
		n++
		pos = i + sep.Len()
	}
	return mkConst(64, uint64(n))
}

func (in *Interp) compare(a, b Str) Value {
	tt := in.tt
	lt := in.strLess(a, b)
	eq := in.strEq(a, b)
	return tt.Ite(eq, mkConst(64, 0), tt.Ite(lt, mkConst(64, ^uint64(0)), mkConst(64, 1)))
}

// indexByte: position of the first occurrence of b in hay, or -1. With a
// concrete haystack and a symbolic byte the result is a fork-free ite chain
// over the single variable; otherwise the position is chosen by forking.
func (in *Interp) indexByte(hay Str, b *Term) Value {
	if hay.opaque {
		panic(unsupported("search in opaque string"))
	}
	if hay.IsConcrete() && !b.IsConst() {
		tt := in.tt
		res := mkConst(64, ^uint64(0))
		hs := hay.Concrete()
		for i := len(hs) - 1; i >= 0; i-- {
			res = tt.Ite(tt.Eq(b, mkConst(8, uint64(hs[i]))), mkConst(64, uint64(i)), res)
		}
		return res
	}
	return mkConst(64, uint64(int64(in.findFirst(hay, 0, strFromTerms([]*Term{b})))))
}

// sort.Slice, sort.SliceStable, sort.SliceIsSorted: the reflection-based
// length and swapper are replaced by engine functions over the slice value;
// the sorting algorithm itself (stable_func, pdqsort_func) runs from its SSA.
func init() {
	sortWith := func(algo string) intrinsic {
		return func(in *Interp, c *frame, fn *ssa.Function, a []Value) Value {
			x, ok := a[0].(Iface)
			if !ok {
				panic(unsupported("sort.Slice on non-interface"))
			}
			s, ok := x.V.(Slice)
			if !ok {
				panic(unsupported(fmt.Sprintf("sort.Slice on %T", x.V)))
			}
			pkg := in.prog.ImportedPackage("sort")
			if pkg == nil {
				panic(unsupported("package sort not loaded"))
			}
			swap := &Native{f: func(in *Interp, args []Value) Value {
				i := int(args[0].(*Term).c)
				j := int(args[1].(*Term).c)
				if !args[0].(*Term).IsConst() || !args[1].(*Term).IsConst() {
					panic(unsupported("sort swap with symbolic index"))
				}
				s.A[s.Off+i], s.A[s.Off+j] = s.A[s.Off+j], s.A[s.Off+i]
				return nil
			}}
			n := mkConst(64, uint64(s.Len))
			switch algo {
			case "stable":
				f := pkg.Func("stable_func")
				in.call(c, f, []Value{Struct{a[1], swap}, n})
			case "pdq":
				f := pkg.Func("pdqsort_func")
				limit := mkConst(64, uint64(bitsLen(uint(s.Len))))
				in.call(c, f, []Value{Struct{a[1], swap}, mkConst(64, 0), n, limit})
			case "issorted":
				for i := s.Len - 1; i > 0; i-- {
					r := in.call(c, a[1], []Value{mkConst(64, uint64(i)), mkConst(64, uint64(i-1))}).(*Term)
					lt := false
					if r.IsConst() {
						lt = r.c != 0
					} else {
						lt = in.w.branchT(r)
					}
					if lt {
						return tFalse
					}
				}
				return tTrue
			}
			return nil
		}
	}
	reg("sort.SliceStable", sortWith("stable"))
	reg("sort.Slice", sortWith("pdq"))
	reg("sort.SliceIsSorted", sortWith("issorted"))
}

func bitsLen(x uint) int {
	n := 0
	for ; x != 0; x >>= 1 {
		n++
	}
	return n
}

// ---- sync.Map and sync/atomic: sequentialised ----
type syncMapEntry struct{ k, v Value }

func (in *Interp) syncMap(p Ptr) *[]syncMapEntry {
	m, _ := in.pathState["syncmaps"].(map[Ptr]*[]syncMapEntry)
	if m == nil {
		m = map[Ptr]*[]syncMapEntry{}
		in.pathState["syncmaps"] = m
	}
	if m[p] == nil {
		m[p] = &[]syncMapEntry{}
	}
	return m[p]
}

func (in *Interp) syncMapFind(p Ptr, k Value) (int, *[]syncMapEntry) {
	es := in.syncMap(p)
	for i, e := range *es {
		c := in.eq(e.k, k)
		same := false
		if c.IsConst() {
			same = c.c != 0
		} else {
			same = in.w.branchT(c)
		}
		if same {
			return i, es
		}
	}
	return -1, es
}

func init() {
	reg("(*sync.Map).Load", func(in *Interp, c *frame, fn *ssa.Function, a []Value) Value {
		i, es := in.syncMapFind(a[0].(Ptr), a[1])
		if i < 0 {
			return Tuple{Iface{}, tFalse}
		}
		return Tuple{(*es)[i].v, tTrue}
	})
	reg("(*sync.Map).Store", func(in *Interp, c *frame, fn *ssa.Function, a []Value) Value {
		i, es := in.syncMapFind(a[0].(Ptr), a[1])
		if i < 0 {
			*es = append(*es, syncMapEntry{a[1], a[2]})
		} else {
			(*es)[i].v = a[2]
		}
		return nil
	})
	reg("(*sync.Map).LoadOrStore", func(in *Interp, c *frame, fn *ssa.Function, a []Value) Value {
		i, es := in.syncMapFind(a[0].(Ptr), a[1])
		if i < 0 {
			*es = append(*es, syncMapEntry{a[1], a[2]})
			return Tuple{a[2], tFalse}
		}
		return Tuple{(*es)[i].v, tTrue}
	})
	reg("(*sync.Map).Delete", func(in *Interp, c *frame, fn *ssa.Function, a []Value) Value {
		i, es := in.syncMapFind(a[0].(Ptr), a[1])
		if i >= 0 {
			*es = append((*es)[:i:i], (*es)[i+1:]...)
		}
		return nil
	})
	load := func(in *Interp, c *frame, fn *ssa.Function, a []Value) Value { return in.load(a[0]) }
	store := func(in *Interp, c *frame, fn *ssa.Function, a []Value) Value { in.store(a[0], a[1]); return nil }
	for _, t := range []string{"Uint32", "Int32", "Uint64", "Int64", "Uintptr", "Pointer"} {
		reg("sync/atomic.Load"+t, load)
		reg("sync/atomic.Store"+t, store)
	}
	for _, t := range []string{"Uint32", "Int32", "Uint64", "Int64"} {
		reg("sync/atomic.Add"+t, func(in *Interp, c *frame, fn *ssa.Function, a []Value) Value {
			v := in.tt.Bin(OAdd, in.load(a[0]).(*Term), a[1].(*Term))
			in.store(a[0], v)
			return v
		})
		reg("sync/atomic.CompareAndSwap"+t, func(in *Interp, c *frame, fn *ssa.Function, a []Value) Value {
			cur := in.load(a[0]).(*Term)
			eq := in.tt.Eq(cur, a[1].(*Term))
			ok := false
			if eq.IsConst() {
				ok = eq.c != 0
			} else {
				ok = in.w.branchT(eq)
			}
			if ok {
				in.store(a[0], a[2])
				return tTrue
			}
			return tFalse
		})
	}
}
