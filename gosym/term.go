package main

// Hash-consed SMT terms over Bool and fixed-width bit-vectors, with
// constant folding so that concrete execution stays concrete.

import (
	"fmt"
	"math/big"
	"strings"
)

type Op uint8

const (
	OConst Op = iota
	OVar
	ONot
	OAnd
	OOr
	OEq
	OIte
	OAdd
	OSub
	OMul
	OUDiv
	OSDiv
	OURem
	OSRem
	OBAnd
	OBOr
	OBXor
	OShl
	OLShr
	OAShr
	OULt
	OULe
	OSLt
	OSLe
	OZext
	OSext
	OExtract
	OConcat
	OApp
)

var opSMT = map[Op]string{
	ONot: "not", OAnd: "and", OOr: "or", OEq: "=", OIte: "ite",
	OAdd: "bvadd", OSub: "bvsub", OMul: "bvmul", OUDiv: "bvudiv", OSDiv: "bvsdiv",
	OURem: "bvurem", OSRem: "bvsrem", OBAnd: "bvand", OBOr: "bvor", OBXor: "bvxor",
	OShl: "bvshl", OLShr: "bvlshr", OAShr: "bvashr",
	OULt: "bvult", OULe: "bvule", OSLt: "bvslt", OSLe: "bvsle", OConcat: "concat",
}

// Term is an immutable term. w==0 means Bool, otherwise BitVec w.
type Term struct {
	op      Op
	w       int
	c       uint64   // constant value (w<=64) or bool 0/1
	cb      *big.Int // constant value for w>64
	a, b, d *Term
	hi, lo  int
	name    string
	args    []*Term // OApp
	id      int32   // >0 for interned non-constant terms
	sv      *Term   // the single 8-bit variable this term depends on, if svState==2
	svState uint8   // 1: no variables, 2: exactly one 8-bit variable (sv), 3: other
	vs      []*Term // variables occurring in the term (lazily computed)
	vsDone  bool
}

func (t *Term) IsConst() bool { return t.op == OConst }
func (t *Term) IsBool() bool  { return t.w == 0 }

var (
	tTrue  = &Term{op: OConst, w: 0, c: 1}
	tFalse = &Term{op: OConst, w: 0, c: 0}
)

func mask(w int) uint64 {
	if w >= 64 {
		return ^uint64(0)
	}
	return (uint64(1) << uint(w)) - 1
}

var smallConsts [65][]*Term

func init() {
	for _, w := range []int{8, 16, 32, 64} {
		smallConsts[w] = make([]*Term, 512)
		for i := range smallConsts[w] {
			smallConsts[w][i] = &Term{op: OConst, w: w, c: uint64(i)}
		}
	}
}

func mkConst(w int, c uint64) *Term {
	if w == 0 {
		if c != 0 {
			return tTrue
		}
		return tFalse
	}
	if w > 64 {
		return mkBigConst(w, new(big.Int).SetUint64(c))
	}
	c &= mask(w)
	if c < 512 && smallConsts[w] != nil {
		return smallConsts[w][c]
	}
	return &Term{op: OConst, w: w, c: c}
}

func mkBigConst(w int, v *big.Int) *Term {
	if w <= 64 {
		return mkConst(w, v.Uint64())
	}
	m := new(big.Int).Lsh(big.NewInt(1), uint(w))
	m.Sub(m, big.NewInt(1))
	return &Term{op: OConst, w: w, cb: new(big.Int).And(v, m)}
}

func mkBool(b bool) *Term {
	if b {
		return tTrue
	}
	return tFalse
}

func (t *Term) bigVal() *big.Int {
	if t.cb != nil {
		return t.cb
	}
	return new(big.Int).SetUint64(t.c)
}

// signed value of a constant of width <= 64
func (t *Term) sval() int64 {
	if t.w >= 64 {
		return int64(t.c)
	}
	sh := uint(64 - t.w)
	return int64(t.c<<sh) >> sh
}

type termKey struct {
	op         Op
	w, hi, lo  int32
	a, b, d    int32
	ac, bc, dc uint64
	name       string
}

// TermTable interns terms; one per worker.
type TermTable struct {
	m      map[termKey]*Term
	byID   []*Term
	nextID int32
	apps   []*Term // UF applications in creation order
	// results of look-ups in injective constant tables with an in-range index
	tableLoads map[*Term]tableLoad
	loadMemo   map[loadKey]*Term
}

type loadKey struct {
	h   uint64
	n   int
	idx *Term
}

type tableLoad struct {
	key  string
	idx  *Term
	vals []uint64
}

func newTermTable() *TermTable {
	return &TermTable{m: make(map[termKey]*Term), byID: []*Term{nil}, nextID: 1}
}

func childKey(t *Term) (int32, uint64) {
	if t == nil {
		return 0, 0
	}
	if t.op == OConst {
		if t.cb != nil {
			// big constants are rare; key on low bits plus a hash of the text
			h := uint64(14695981039346656037)
			for _, b := range t.cb.Bytes() {
				h = (h ^ uint64(b)) * 1099511628211
			}
			return -int32(t.w) - 1000, h
		}
		return -int32(t.w) - 1, t.c
	}
	return t.id, 0
}

func (tt *TermTable) intern(t *Term) *Term {
	k := termKey{op: t.op, w: int32(t.w), hi: int32(t.hi), lo: int32(t.lo), name: t.name}
	k.a, k.ac = childKey(t.a)
	k.b, k.bc = childKey(t.b)
	k.d, k.dc = childKey(t.d)
	if t.op == OApp {
		var sb strings.Builder
		sb.WriteString(t.name)
		for _, a := range t.args {
			id, c := childKey(a)
			fmt.Fprintf(&sb, ",%d:%d", id, c)
		}
		k.name = sb.String()
	}
	if e, ok := tt.m[k]; ok {
		return e
	}
	t.id = tt.nextID
	tt.nextID++
	t.computeSV()
	tt.m[k] = t
	tt.byID = append(tt.byID, t)
	if t.op == OApp {
		tt.apps = append(tt.apps, t)
	}
	return t
}

func (tt *TermTable) Var(name string, w int) *Term {
	return tt.intern(&Term{op: OVar, w: w, name: name})
}

func (tt *TermTable) App(name string, w int, args ...*Term) *Term {
	return tt.intern(&Term{op: OApp, w: w, name: name, args: args})
}

func (tt *TermTable) Not(a *Term) *Term {
	if a.op == OConst {
		return mkBool(a.c == 0)
	}
	if a.op == ONot {
		return a.a
	}
	return tt.intern(&Term{op: ONot, a: a})
}

func (tt *TermTable) And(a, b *Term) *Term {
	if a.op == OConst {
		if a.c == 0 {
			return tFalse
		}
		return b
	}
	if b.op == OConst {
		if b.c == 0 {
			return tFalse
		}
		return a
	}
	if a == b {
		return a
	}
	if a.op == OAnd {
		// keep conjunctions right-nested so that slice equalities can be merged
		return tt.And(a.a, tt.And(a.b, b))
	}
	if r := tt.andMerge(a, b); r != nil {
		return r
	}
	return tt.intern(&Term{op: OAnd, a: a, b: b})
}

func (tt *TermTable) Or(a, b *Term) *Term {
	if a.op == OConst {
		if a.c != 0 {
			return tTrue
		}
		return b
	}
	if b.op == OConst {
		if b.c != 0 {
			return tTrue
		}
		return a
	}
	if a == b {
		return a
	}
	return tt.intern(&Term{op: OOr, a: a, b: b})
}

func (tt *TermTable) Implies(a, b *Term) *Term { return tt.Or(tt.Not(a), b) }

func constEq(a, b *Term) bool {
	if a.cb != nil || b.cb != nil {
		return a.bigVal().Cmp(b.bigVal()) == 0
	}
	return a.c == b.c
}

func (tt *TermTable) Eq(a, b *Term) *Term {
	if a.w != b.w {
		panic(fmt.Sprintf("Eq width mismatch %d %d", a.w, b.w))
	}
	if a == b {
		return tTrue
	}
	if a.op == OConst && b.op == OConst {
		return mkBool(constEq(a, b))
	}
	if a.w == 0 {
		// bool equality
		if a.op == OConst {
			if a.c != 0 {
				return b
			}
			return tt.Not(b)
		}
		if b.op == OConst {
			if b.c != 0 {
				return a
			}
			return tt.Not(a)
		}
	}
	// normalise order: constant on the right
	if a.op == OConst {
		a, b = b, a
	}
	// eq(ite(c,k1,k2),k) with constants
	if b.op == OConst && a.op == OIte && a.b.op == OConst && a.d.op == OConst {
		e1, e2 := constEq(a.b, b), constEq(a.d, b)
		switch {
		case e1 && e2:
			return tTrue
		case e1:
			return a.a
		case e2:
			return tt.Not(a.a)
		default:
			return tFalse
		}
	}
	// eq(ite tree with constant leaves, k): push the comparison to the leaves
	if b.op == OConst && a.op == OIte && b.cb == nil {
		budget := 2048
		if r := tt.eqIteConst(a, b, &budget, map[*Term]*Term{}); r != nil {
			return r
		}
	}
	// unsigned range analysis: a value that cannot reach k is not equal to it
	if b.op == OConst && b.cb == nil && a.w <= 64 && a.w > 0 && (tt.ubound(a, 12) < b.c || tt.lbound(a, 12) > b.c) {
		return tFalse
	}
	// eq(zext(x), k)
	if b.op == OConst && a.op == OZext && b.cb == nil {
		if b.c > mask(a.a.w) {
			return tFalse
		}
		return tt.Eq(a.a, mkConst(a.a.w, b.c))
	}
	if tt.tableLoads != nil && a.op == OIte && b.op == OIte {
		if la, ok := tt.tableLoads[a]; ok {
			if lb, ok := tt.tableLoads[b]; ok && la.key == lb.key && la.idx.w == lb.idx.w {
				return tt.Eq(la.idx, lb.idx)
			}
		}
	}
	if a.op == OZext && b.op == OZext && a.a.w == b.a.w {
		return tt.Eq(a.a, b.a)
	}
	// concatenations split at the same position compare piecewise
	if a.op == OConcat && b.op == OConcat && a.a.w == b.a.w {
		return tt.And(tt.Eq(a.a, b.a), tt.Eq(a.b, b.b))
	}
	if a.op == OConcat && b.op == OConst {
		v := b.bigVal()
		hi := new(big.Int).Rsh(v, uint(a.b.w))
		lo := new(big.Int).And(v, new(big.Int).Sub(new(big.Int).Lsh(big.NewInt(1), uint(a.b.w)), big.NewInt(1)))
		return tt.And(tt.Eq(a.a, mkBigConst(a.a.w, hi)), tt.Eq(a.b, mkBigConst(a.b.w, lo)))
	}
	if a.op == OConcat || b.op == OConcat {
		c, o := a, b
		if c.op != OConcat {
			c, o = b, a
		}
		return tt.And(tt.Eq(c.a, tt.Extract(o, o.w-1, c.b.w)), tt.Eq(c.b, tt.Extract(o, c.b.w-1, 0)))
	}
	// two applications of the injective SHA-256 abstraction: equal iff same
	// length and equal arguments (the inverse-function axioms say the same)
	if a.op == OApp && b.op == OApp && isShaApp(a.name) && isShaApp(b.name) {
		if a.name != b.name || len(a.args) != len(b.args) {
			return tFalse
		}
		r := tTrue
		for i := range a.args {
			r = tt.And(r, tt.Eq(a.args[i], b.args[i]))
		}
		return r
	}
	if b.op != OConst && a.id > b.id {
		a, b = b, a
	}
	return tt.intern(&Term{op: OEq, a: a, b: b})
}

func (tt *TermTable) Ite(c, a, b *Term) *Term {
	if a.w != b.w {
		panic("Ite width mismatch")
	}
	if c.op == OConst {
		if c.c != 0 {
			return a
		}
		return b
	}
	if a == b {
		return a
	}
	if a.op == OConst && b.op == OConst && constEq(a, b) {
		return a
	}
	if a.w == 0 {
		if a.op == OConst && b.op == OConst {
			if a.c != 0 {
				return c
			}
			return tt.Not(c)
		}
		if a.op == OConst {
			if a.c != 0 {
				return tt.Or(c, b)
			}
			return tt.And(tt.Not(c), b)
		}
		if b.op == OConst {
			if b.c != 0 {
				return tt.Or(tt.Not(c), a)
			}
			return tt.And(c, a)
		}
	}
	return tt.intern(&Term{op: OIte, w: a.w, a: c, b: a, d: b})
}

func foldBin(op Op, w int, x, y uint64) (uint64, bool) {
	m := mask(w)
	sx := func(v uint64) int64 {
		if w >= 64 {
			return int64(v)
		}
		sh := uint(64 - w)
		return int64(v<<sh) >> sh
	}
	switch op {
	case OAdd:
		return (x + y) & m, true
	case OSub:
		return (x - y) & m, true
	case OMul:
		return (x * y) & m, true
	case OUDiv:
		if y == 0 {
			return m, true
		}
		return x / y, true
	case OURem:
		if y == 0 {
			return x, true
		}
		return x % y, true
	case OSDiv:
		if y == 0 {
			if sx(x) < 0 {
				return 1, true
			}
			return m, true
		}
		a, b := sx(x), sx(y)
		if b == -1 {
			return uint64(-a) & m, true
		}
		return uint64(a/b) & m, true
	case OSRem:
		if y == 0 {
			return x, true
		}
		a, b := sx(x), sx(y)
		if b == -1 {
			return 0, true
		}
		return uint64(a%b) & m, true
	case OBAnd:
		return x & y, true
	case OBOr:
		return x | y, true
	case OBXor:
		return x ^ y, true
	case OShl:
		if y >= uint64(w) {
			return 0, true
		}
		return (x << y) & m, true
	case OLShr:
		if y >= uint64(w) {
			return 0, true
		}
		return x >> y, true
	case OAShr:
		if y >= uint64(w) {
			if sx(x) < 0 {
				return m, true
			}
			return 0, true
		}
		return uint64(sx(x)>>y) & m, true
	}
	return 0, false
}

// Bin builds an arithmetic/bitwise op on equal-width bit-vectors.
func (tt *TermTable) Bin(op Op, a, b *Term) *Term {
	if a.w != b.w || a.w == 0 {
		panic(fmt.Sprintf("Bin %v width mismatch %d %d", op, a.w, b.w))
	}
	if a.op == OConst && b.op == OConst && a.w <= 64 {
		if r, ok := foldBin(op, a.w, a.c, b.c); ok {
			return mkConst(a.w, r)
		}
	}
	if a.w <= 64 {
		// light identities
		switch op {
		case OAdd:
			if a.op == OConst && a.c == 0 {
				return b
			}
			if b.op == OConst && b.c == 0 {
				return a
			}
		case OSub, OShl, OLShr, OAShr, OBOr, OBXor:
			if b.op == OConst && b.c == 0 {
				return a
			}
			if (op == OBOr || op == OBXor) && a.op == OConst && a.c == 0 {
				return b
			}
		case OMul:
			if b.op == OConst && b.c == 1 {
				return a
			}
			if a.op == OConst && a.c == 1 {
				return b
			}
			if (b.op == OConst && b.c == 0) || (a.op == OConst && a.c == 0) {
				return mkConst(a.w, 0)
			}
		case OBAnd:
			if (b.op == OConst && b.c == 0) || (a.op == OConst && a.c == 0) {
				return mkConst(a.w, 0)
			}
			if b.op == OConst && b.c == mask(a.w) {
				return a
			}
			if a.op == OConst && a.c == mask(a.w) {
				return b
			}
		}
	}
	t := tt.intern(&Term{op: op, w: a.w, a: a, b: b})
	if op == OShl || op == OLShr || op == OBAnd || op == OBOr {
		if n := tt.wiringNormal(t); n != nil {
			return n
		}
	}
	return t
}

// Cmp builds ult/ule/slt/sle.
func (tt *TermTable) Cmp(op Op, a, b *Term) *Term {
	if a.w != b.w || a.w == 0 {
		panic("Cmp width mismatch")
	}
	if a.op == OConst && b.op == OConst && a.w <= 64 {
		switch op {
		case OULt:
			return mkBool(a.c < b.c)
		case OULe:
			return mkBool(a.c <= b.c)
		case OSLt:
			return mkBool(a.sval() < b.sval())
		case OSLe:
			return mkBool(a.sval() <= b.sval())
		}
	}
	if a == b {
		return mkBool(op == OULe || op == OSLe)
	}
	// zext(x) compared with constant
	if a.op == OZext && b.op == OConst && a.w <= 64 && (op == OULt || op == OULe || ((op == OSLt || op == OSLe) && b.sval() >= 0)) {
		k := b.c
		if k > mask(a.a.w) {
			return tTrue
		}
		uop := OULt
		if op == OULe || op == OSLe {
			uop = OULe
		}
		return tt.Cmp(uop, a.a, mkConst(a.a.w, k))
	}
	if b.op == OZext && a.op == OConst && a.w <= 64 && (op == OULt || op == OULe || ((op == OSLt || op == OSLe) && a.sval() >= 0)) {
		k := a.c
		if k > mask(b.a.w) {
			return tFalse
		}
		uop := OULt
		if op == OULe || op == OSLe {
			uop = OULe
		}
		return tt.Cmp(uop, mkConst(b.a.w, k), b.a)
	}
	// unsigned range analysis: x op k decided by an upper bound of x
	if b.op == OConst && a.w <= 64 && (op == OULt || op == OULe) {
		if ub := tt.ubound(a, 12); (op == OULt && ub < b.c) || (op == OULe && ub <= b.c) {
			return tTrue
		}
	}
	if b.op == OConst && a.w <= 64 && (op == OULt || op == OULe) {
		if lb := tt.lbound(a, 12); (op == OULt && lb >= b.c) || (op == OULe && lb > b.c) {
			return tFalse
		}
	}
	if a.op == OConst && b.w <= 64 && (op == OULt || op == OULe) {
		if lb := tt.lbound(b, 12); (op == OULt && a.c < lb) || (op == OULe && a.c <= lb) {
			return tTrue
		}
	}
	if a.op == OConst && b.w <= 64 && (op == OULt || op == OULe) {
		if ub := tt.ubound(b, 12); (op == OULt && ub <= a.c) || (op == OULe && ub < a.c) {
			return tFalse
		}
	}
	return tt.intern(&Term{op: op, a: a, b: b})
}

// ubound returns an upper bound of the unsigned value of t (w <= 64).
func (tt *TermTable) ubound(t *Term, depth int) uint64 {
	m := mask(t.w)
	if tt.tableLoads != nil && t.op == OIte {
		if tl, ok := tt.tableLoads[t]; ok && len(tl.vals) > 0 {
			mx := uint64(0)
			for _, v := range tl.vals {
				if v > mx {
					mx = v
				}
			}
			return mx
		}
	}
	if t.w > 64 || depth == 0 {
		return m
	}
	min := func(x, y uint64) uint64 {
		if x < y {
			return x
		}
		return y
	}
	switch t.op {
	case OConst:
		return t.c
	case OBAnd:
		return min(tt.ubound(t.a, depth-1), tt.ubound(t.b, depth-1))
	case OLShr:
		if t.b.op == OConst && t.b.c < 64 {
			return tt.ubound(t.a, depth-1) >> t.b.c
		}
	case OZext:
		return tt.ubound(t.a, depth-1)
	case OExtract:
		if t.lo == 0 && t.a.w <= 64 {
			return min(tt.ubound(t.a, depth-1), m)
		}
	case OIte:
		x, y := tt.ubound(t.b, depth-1), tt.ubound(t.d, depth-1)
		if x > y {
			return x
		}
		return y
	case OURem:
		if t.b.op == OConst && t.b.c > 0 {
			return min(t.b.c-1, tt.ubound(t.a, depth-1))
		}
	case OUDiv:
		if t.b.op == OConst && t.b.c > 0 {
			return tt.ubound(t.a, depth-1) / t.b.c
		}
	}
	return m
}

func (tt *TermTable) Zext(a *Term, w int) *Term {
	if a.w == w {
		return a
	}
	if a.w > w {
		return tt.Extract(a, w-1, 0)
	}
	if a.op == OConst {
		if w <= 64 {
			return mkConst(w, a.c)
		}
		return mkBigConst(w, a.bigVal())
	}
	if a.op == OZext {
		a = a.a
	}
	return tt.intern(&Term{op: OZext, w: w, a: a})
}

func (tt *TermTable) Sext(a *Term, w int) *Term {
	if a.w == w {
		return a
	}
	if a.w > w {
		return tt.Extract(a, w-1, 0)
	}
	if a.op == OConst && w <= 64 {
		return mkConst(w, uint64(a.sval()))
	}
	if a.op == OZext {
		// sign bit is zero
		return tt.Zext(a.a, w)
	}
	return tt.intern(&Term{op: OSext, w: w, a: a})
}

func (tt *TermTable) Extract(a *Term, hi, lo int) *Term {
	if lo == 0 && hi == a.w-1 {
		return a
	}
	if hi >= a.w || lo < 0 || hi < lo {
		panic(fmt.Sprintf("Extract bad range %d %d of %d", hi, lo, a.w))
	}
	w := hi - lo + 1
	if a.op == OConst {
		if a.cb != nil {
			v := new(big.Int).Rsh(a.cb, uint(lo))
			return mkBigConst(w, v)
		}
		return mkConst(w, a.c>>uint(lo))
	}
	switch a.op {
	case OExtract:
		return tt.Extract(a.a, a.lo+hi, a.lo+lo)
	case OZext:
		if hi < a.a.w {
			return tt.Extract(a.a, hi, lo)
		}
		if lo >= a.a.w {
			return mkConst(w, 0)
		}
	case OSext:
		if hi < a.a.w {
			return tt.Extract(a.a, hi, lo)
		}
	case OConcat:
		// concat(a.a (high), a.b (low))
		lw := a.b.w
		if hi < lw {
			return tt.Extract(a.b, hi, lo)
		}
		if lo >= lw {
			return tt.Extract(a.a, hi-lw, lo-lw)
		}
	}
	return tt.intern(&Term{op: OExtract, w: w, a: a, hi: hi, lo: lo})
}

// Concat: hiT is the more significant part.
func (tt *TermTable) Concat(hiT, loT *Term) *Term {
	w := hiT.w + loT.w
	if hiT.op == OConst && loT.op == OConst {
		v := new(big.Int).Lsh(hiT.bigVal(), uint(loT.w))
		v.Or(v, loT.bigVal())
		return mkBigConst(w, v)
	}
	if hiT.op == OExtract && loT.op == OExtract && hiT.a == loT.a && hiT.lo == loT.hi+1 {
		return tt.Extract(hiT.a, hiT.hi, loT.lo)
	}
	// concat(x, concat(..)) where x extends the leading extract of the low part
	if hiT.op == OExtract && loT.op == OConcat && loT.a.op == OExtract && loT.a.a == hiT.a && hiT.lo == loT.a.hi+1 {
		return tt.Concat(tt.Extract(hiT.a, hiT.hi, loT.a.lo), loT.b)
	}
	return tt.intern(&Term{op: OConcat, w: w, a: hiT, b: loT})
}

func (tt *TermTable) Neg(a *Term) *Term  { return tt.Bin(OSub, mkConst(a.w, 0), a) }
func (tt *TermTable) BNot(a *Term) *Term { return tt.Bin(OBXor, a, mkConst(a.w, mask(a.w))) }

// ---- SMT-LIB rendering ----

func sortStr(w int) string {
	if w == 0 {
		return "Bool"
	}
	return fmt.Sprintf("(_ BitVec %d)", w)
}

func constStr(t *Term) string {
	if t.w == 0 {
		if t.c != 0 {
			return "true"
		}
		return "false"
	}
	if t.cb != nil {
		s := t.cb.Text(2)
		if len(s) < t.w {
			s = strings.Repeat("0", t.w-len(s)) + s
		}
		return "#b" + s
	}
	if t.w%4 == 0 {
		return fmt.Sprintf("#x%0*x", t.w/4, t.c)
	}
	return fmt.Sprintf("#b%0*b", t.w, t.c)
}

func ref(t *Term) string {
	if t.op == OConst {
		return constStr(t)
	}
	if t.op == OVar {
		return t.name
	}
	return fmt.Sprintf("t%d", t.id)
}

// body renders the defining expression of an interned term in terms of refs.
func body(t *Term) string {
	switch t.op {
	case OZext:
		return fmt.Sprintf("((_ zero_extend %d) %s)", t.w-t.a.w, ref(t.a))
	case OSext:
		return fmt.Sprintf("((_ sign_extend %d) %s)", t.w-t.a.w, ref(t.a))
	case OExtract:
		return fmt.Sprintf("((_ extract %d %d) %s)", t.hi, t.lo, ref(t.a))
	case ONot:
		return fmt.Sprintf("(not %s)", ref(t.a))
	case OIte:
		return fmt.Sprintf("(ite %s %s %s)", ref(t.a), ref(t.b), ref(t.d))
	case OApp:
		var sb strings.Builder
		sb.WriteString("(" + t.name)
		for _, a := range t.args {
			sb.WriteString(" " + ref(a))
		}
		sb.WriteString(")")
		return sb.String()
	}
	return fmt.Sprintf("(%s %s %s)", opSMT[t.op], ref(t.a), ref(t.b))
}

func (t *Term) children() []*Term {
	if t.op == OApp {
		return t.args
	}
	var r []*Term
	for _, c := range []*Term{t.a, t.b, t.d} {
		if c != nil {
			r = append(r, c)
		}
	}
	return r
}

// String renders a term fully (debugging).
func (t *Term) String() string {
	if t.op == OConst || t.op == OVar {
		return ref(t)
	}
	switch t.op {
	case OZext:
		return fmt.Sprintf("(zext%d %s)", t.w, t.a)
	case OSext:
		return fmt.Sprintf("(sext%d %s)", t.w, t.a)
	case OExtract:
		return fmt.Sprintf("(extract %d %d %s)", t.hi, t.lo, t.a)
	case ONot:
		return fmt.Sprintf("(not %s)", t.a)
	case OIte:
		return fmt.Sprintf("(ite %s %s %s)", t.a, t.b, t.d)
	case OApp:
		return fmt.Sprintf("(%s %v)", t.name, t.args)
	}
	return fmt.Sprintf("(%s %s %s)", opSMT[t.op], t.a, t.b)
}

// Eval evaluates a term under an assignment of variables (for witnesses).
// UF applications are resolved by uf (may be nil -> panic).
func (t *Term) Eval(env map[string]*big.Int, uf func(app *Term, args []*big.Int) *big.Int, memo map[*Term]*big.Int) *big.Int {
	if t.op == OConst {
		return t.bigVal()
	}
	if v, ok := memo[t]; ok {
		return v
	}
	ev := func(x *Term) *big.Int { return x.Eval(env, uf, memo) }
	var r *big.Int
	wm := func(w int, v *big.Int) *big.Int {
		if w == 0 {
			return v
		}
		m := new(big.Int).Lsh(big.NewInt(1), uint(w))
		m.Sub(m, big.NewInt(1))
		return new(big.Int).And(v, m)
	}
	bb := func(b bool) *big.Int {
		if b {
			return big.NewInt(1)
		}
		return big.NewInt(0)
	}
	signed := func(v *big.Int, w int) *big.Int {
		if v.Bit(w-1) == 1 {
			return new(big.Int).Sub(v, new(big.Int).Lsh(big.NewInt(1), uint(w)))
		}
		return v
	}
	switch t.op {
	case OVar:
		v, ok := env[t.name]
		if !ok {
			v = big.NewInt(0)
		}
		r = v
	case ONot:
		r = bb(ev(t.a).Sign() == 0)
	case OAnd:
		r = bb(ev(t.a).Sign() != 0 && ev(t.b).Sign() != 0)
	case OOr:
		r = bb(ev(t.a).Sign() != 0 || ev(t.b).Sign() != 0)
	case OEq:
		r = bb(ev(t.a).Cmp(ev(t.b)) == 0)
	case OIte:
		if ev(t.a).Sign() != 0 {
			r = ev(t.b)
		} else {
			r = ev(t.d)
		}
	case OULt:
		r = bb(ev(t.a).Cmp(ev(t.b)) < 0)
	case OULe:
		r = bb(ev(t.a).Cmp(ev(t.b)) <= 0)
	case OSLt:
		r = bb(signed(ev(t.a), t.a.w).Cmp(signed(ev(t.b), t.a.w)) < 0)
	case OSLe:
		r = bb(signed(ev(t.a), t.a.w).Cmp(signed(ev(t.b), t.a.w)) <= 0)
	case OZext:
		r = ev(t.a)
	case OSext:
		r = wm(t.w, signed(ev(t.a), t.a.w))
	case OExtract:
		r = wm(t.w, new(big.Int).Rsh(ev(t.a), uint(t.lo)))
	case OConcat:
		r = new(big.Int).Lsh(ev(t.a), uint(t.b.w))
		r.Or(r, ev(t.b))
	case OApp:
		args := make([]*big.Int, len(t.args))
		for i, a := range t.args {
			args[i] = ev(a)
		}
		r = uf(t, args)
	default:
		x, y := ev(t.a), ev(t.b)
		if t.w <= 64 {
			v, _ := foldBin(t.op, t.w, x.Uint64(), y.Uint64())
			r = new(big.Int).SetUint64(v)
		} else {
			switch t.op {
			case OAdd:
				r = wm(t.w, new(big.Int).Add(x, y))
			case OSub:
				r = wm(t.w, new(big.Int).Sub(x, y))
			case OBAnd:
				r = new(big.Int).And(x, y)
			case OBOr:
				r = new(big.Int).Or(x, y)
			case OBXor:
				r = new(big.Int).Xor(x, y)
			default:
				panic("Eval: wide op unsupported")
			}
		}
	}
	memo[t] = r
	return r
}

// computeSV records whether the term depends on exactly one 8-bit variable
// (and only on sub-terms of width <= 64), which makes it decidable by
// enumeration of that variable's 256 values.
func (t *Term) computeSV() {
	if t.w > 64 {
		t.svState = 3
		return
	}
	switch t.op {
	case OVar:
		if t.w == 8 {
			t.sv, t.svState = t, 2
		} else {
			t.svState = 3
		}
		return
	case OApp:
		t.svState = 3
		return
	}
	st := uint8(1)
	var v *Term
	for _, c := range []*Term{t.a, t.b, t.d} {
		if c == nil || c.op == OConst {
			if c != nil && c.w > 64 {
				t.svState = 3
				return
			}
			continue
		}
		switch c.svState {
		case 3, 0:
			t.svState = 3
			return
		case 2:
			if v != nil && v != c.sv {
				t.svState = 3
				return
			}
			v = c.sv
			st = 2
		}
	}
	t.sv, t.svState = v, st
}

// Vars returns the variables occurring in t (memoised; sorted by id).
func (t *Term) Vars() []*Term {
	if t.op == OConst {
		return nil
	}
	if t.vsDone {
		return t.vs
	}
	if t.op == OVar {
		t.vs, t.vsDone = []*Term{t}, true
		return t.vs
	}
	var acc []*Term
	for _, c := range t.children() {
		cv := c.Vars()
		if len(cv) == 0 {
			continue
		}
		if acc == nil {
			acc = cv
			continue
		}
		// merge two sorted lists
		m := make([]*Term, 0, len(acc)+len(cv))
		i, j := 0, 0
		for i < len(acc) && j < len(cv) {
			switch {
			case acc[i].id == cv[j].id:
				m = append(m, acc[i])
				i++
				j++
			case acc[i].id < cv[j].id:
				m = append(m, acc[i])
				i++
			default:
				m = append(m, cv[j])
				j++
			}
		}
		m = append(m, acc[i:]...)
		m = append(m, cv[j:]...)
		acc = m
	}
	t.vs, t.vsDone = acc, true
	return acc
}

// eqIteConst returns eq(t, k) for an ite tree t whose leaves are all
// constants (nil if t is not of that shape or is too large).
func (tt *TermTable) eqIteConst(t, k *Term, budget *int, memo map[*Term]*Term) *Term {
	if t.op == OConst {
		if t.cb != nil {
			return nil
		}
		return mkBool(t.c == k.c)
	}
	if t.op != OIte {
		return nil
	}
	if r, ok := memo[t]; ok {
		return r
	}
	*budget--
	if *budget < 0 {
		return nil
	}
	a := tt.eqIteConst(t.b, k, budget, memo)
	if a == nil {
		memo[t] = nil
		return nil
	}
	b := tt.eqIteConst(t.d, k, budget, memo)
	if b == nil {
		memo[t] = nil
		return nil
	}
	r := tt.Ite(t.a, a, b)
	memo[t] = r
	return r
}

// lbound returns a lower bound of the unsigned value of t (w <= 64).
func (tt *TermTable) lbound(t *Term, depth int) uint64 {
	if t.w > 64 || depth == 0 {
		return 0
	}
	if tt.tableLoads != nil && t.op == OIte {
		if tl, ok := tt.tableLoads[t]; ok && len(tl.vals) > 0 {
			mn := tl.vals[0]
			for _, v := range tl.vals {
				if v < mn {
					mn = v
				}
			}
			return mn
		}
	}
	switch t.op {
	case OConst:
		return t.c
	case OZext:
		return tt.lbound(t.a, depth-1)
	case OIte:
		x, y := tt.lbound(t.b, depth-1), tt.lbound(t.d, depth-1)
		if x < y {
			return x
		}
		return y
	}
	return 0
}
