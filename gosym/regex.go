package main

// Regular-expression matching on concrete-length symbolic strings, encoded as
// position × NFA-state reachability conditions (no forking).

import (
	"golang.org/x/tools/go/ssa"
	"regexp"
	"regexp/syntax"
	"sync"
	"unicode"
)

type compiledRE struct {
	prog      *syntax.Prog
	asciiOnly bool // every rune class is a subset of ASCII
	re        *regexp.Regexp
}

var reCache sync.Map

func compileRE(pat string) *compiledRE {
	if c, ok := reCache.Load(pat); ok {
		return c.(*compiledRE)
	}
	re, err := syntax.Parse(pat, syntax.Perl)
	if err != nil {
		panic(unsupported("regexp parse: " + err.Error()))
	}
	prog, err := syntax.Compile(re.Simplify())
	if err != nil {
		panic(unsupported("regexp compile: " + err.Error()))
	}
	c := &compiledRE{prog: prog, asciiOnly: true, re: regexp.MustCompile(pat)}
	for _, ins := range prog.Inst {
		switch ins.Op {
		case syntax.InstRuneAny, syntax.InstRuneAnyNotNL:
			c.asciiOnly = false
		case syntax.InstRune, syntax.InstRune1:
			if syntax.Flags(ins.Arg)&syntax.FoldCase != 0 {
				panic(unsupported("regexp with case folding"))
			}
			for _, r := range ins.Rune {
				if r >= 0x80 {
					c.asciiOnly = false
				}
			}
		}
	}
	reCache.Store(pat, c)
	return c
}

func (in *Interp) requireASCII(s Str, what string) {
	tt := in.tt
	cond := tTrue
	for i := 0; i < s.Len(); i++ {
		cond = tt.And(cond, tt.Cmp(OULt, s.At(i), mkConst(8, 0x80)))
	}
	if cond.IsConst() {
		if cond.c == 0 {
			panic(unsupported(what + " on non-ASCII input"))
		}
		return
	}
	if !in.w.branchT(cond) {
		panic(unsupported(what + " on non-ASCII symbolic input"))
	}
}

func (in *Interp) regexMatch(pat string, s Str) *Term {
	c := compileRE(pat)
	if s.opaque {
		panic(unsupported("regexp on opaque string"))
	}
	if s.IsConcrete() {
		return mkBool(c.re.MatchString(s.Concrete()))
	}
	if !c.asciiOnly {
		in.requireASCII(s, "regexp with non-ASCII classes")
	}
	tt := in.tt
	prog := c.prog
	n := s.Len()
	isWord := func(b *Term) *Term {
		c8 := func(v byte) *Term { return mkConst(8, uint64(v)) }
		rng := func(lo, hi byte) *Term { return tt.And(tt.Cmp(OULe, c8(lo), b), tt.Cmp(OULe, b, c8(hi))) }
		return tt.Or(tt.Or(rng('a', 'z'), rng('A', 'Z')), tt.Or(rng('0', '9'), tt.Eq(b, c8('_'))))
	}
	emptyCond := func(op syntax.EmptyOp, i int) *Term {
		res := tTrue
		if op&syntax.EmptyBeginText != 0 {
			res = tt.And(res, mkBool(i == 0))
		}
		if op&syntax.EmptyEndText != 0 {
			res = tt.And(res, mkBool(i == n))
		}
		if op&syntax.EmptyBeginLine != 0 {
			if i != 0 {
				res = tt.And(res, tt.Eq(s.At(i-1), mkConst(8, '\n')))
			}
		}
		if op&syntax.EmptyEndLine != 0 {
			if i != n {
				res = tt.And(res, tt.Eq(s.At(i), mkConst(8, '\n')))
			}
		}
		if op&(syntax.EmptyWordBoundary|syntax.EmptyNoWordBoundary) != 0 {
			l, r := tFalse, tFalse
			if i > 0 {
				l = isWord(s.At(i - 1))
			}
			if i < n {
				r = isWord(s.At(i))
			}
			bnd := tt.Not(tt.Eq(l, r))
			if op&syntax.EmptyWordBoundary != 0 {
				res = tt.And(res, bnd)
			}
			if op&syntax.EmptyNoWordBoundary != 0 {
				res = tt.And(res, tt.Not(bnd))
			}
		}
		return res
	}
	matched := tFalse
	cur := map[int]*Term{}
	var order []int
	onStack := map[int]bool{}
	var add func(set map[int]*Term, ord *[]int, pc int, cond *Term, i int)
	add = func(set map[int]*Term, ord *[]int, pc int, cond *Term, i int) {
		if cond == tFalse || onStack[pc] {
			return
		}
		ins := &prog.Inst[pc]
		switch ins.Op {
		case syntax.InstFail:
			return
		case syntax.InstAlt, syntax.InstAltMatch:
			onStack[pc] = true
			add(set, ord, int(ins.Out), cond, i)
			add(set, ord, int(ins.Arg), cond, i)
			onStack[pc] = false
		case syntax.InstNop, syntax.InstCapture:
			onStack[pc] = true
			add(set, ord, int(ins.Out), cond, i)
			onStack[pc] = false
		case syntax.InstEmptyWidth:
			onStack[pc] = true
			add(set, ord, int(ins.Out), tt.And(cond, emptyCond(syntax.EmptyOp(ins.Arg), i)), i)
			onStack[pc] = false
		case syntax.InstMatch:
			matched = tt.Or(matched, cond)
		default:
			if old, ok := set[pc]; ok {
				set[pc] = tt.Or(old, cond)
			} else {
				set[pc] = cond
				*ord = append(*ord, pc)
			}
		}
	}
	runeCond := func(ins *syntax.Inst, b *Term) *Term {
		c8 := func(v rune) *Term { return mkConst(8, uint64(v)) }
		switch ins.Op {
		case syntax.InstRuneAny:
			return tTrue
		case syntax.InstRuneAnyNotNL:
			return tt.Not(tt.Eq(b, c8('\n')))
		}
		if len(ins.Rune) == 1 {
			if ins.Rune[0] >= 0x80 {
				return tFalse
			}
			return tt.Eq(b, c8(ins.Rune[0]))
		}
		res := tFalse
		for k := 0; k+1 < len(ins.Rune); k += 2 {
			lo, hi := ins.Rune[k], ins.Rune[k+1]
			if lo >= 0x80 {
				continue
			}
			if hi >= 0x80 {
				// class extends beyond ASCII; input is known ASCII here
				hi = 0x7f
			}
			if lo == hi {
				res = tt.Or(res, tt.Eq(b, c8(lo)))
			} else {
				res = tt.Or(res, tt.And(tt.Cmp(OULe, c8(lo), b), tt.Cmp(OULe, b, c8(hi))))
			}
		}
		return res
	}
	_ = unicode.MaxRune
	for i := 0; i <= n; i++ {
		// a new thread may start at every position (unanchored search)
		add(cur, &order, prog.Start, tTrue, i)
		if i == n {
			break
		}
		next := map[int]*Term{}
		var nord []int
		b := s.At(i)
		for _, pc := range order {
			ins := &prog.Inst[pc]
			c := tt.And(cur[pc], runeCond(ins, b))
			add(next, &nord, int(ins.Out), c, i+1)
		}
		cur, order = next, nord
	}
	return matched
}

// regexSubmatch implements FindStringSubmatch on a concrete-length symbolic
// ASCII string by running the leftmost-first backtracking search of the
// compiled program, forking the path on every character test whose outcome is
// not determined. On each path the search is an ordinary concrete
// backtracking run, so priorities and captures are exact.
func (in *Interp) regexSubmatch(fr *frame, pat string, s Str) []Str {
	c := compileRE(pat)
	tt := in.tt
	prog := c.prog
	n := s.Len()
	ncap := prog.NumCap
	decide := func(t *Term) bool {
		if t.IsConst() {
			return t.c != 0
		}
		return in.w.branchT(t)
	}
	c8 := func(v rune) *Term { return mkConst(32, uint64(v)) }
	nl8 := mkConst(8, '\n')
	var decodeFn *ssa.Function
	if p := in.prog.ImportedPackage("unicode/utf8"); p != nil {
		decodeFn = p.Func("DecodeRuneInString")
	}
	// runeAt decodes the rune at byte position pos the way regexp does
	// (utf8.DecodeRuneInString, executed from its SSA so that malformed
	// sequences come out as RuneError of width 1).
	runeAt := func(pos int) (*Term, int) {
		b := s.At(pos)
		if decide(tt.Cmp(OULt, b, mkConst(8, 0x80))) {
			return tt.Zext(b, 32), 1
		}
		if decodeFn == nil {
			panic(unsupported("regexp submatch on non-ASCII input (utf8 not loaded)"))
		}
		res := in.call(fr, decodeFn, []Value{s.Slice(pos, n)}).(Tuple)
		r := res[0].(*Term)
		sz := res[1].(*Term)
		if !sz.IsConst() {
			panic(unsupported("regexp submatch: symbolic rune width"))
		}
		return r, int(sz.c)
	}
	runeOK := func(ins *syntax.Inst, b *Term) bool {
		switch ins.Op {
		case syntax.InstRuneAny:
			return true
		case syntax.InstRuneAnyNotNL:
			return decide(tt.Not(tt.Eq(b, c8('\n'))))
		}
		if syntax.Flags(ins.Arg)&syntax.FoldCase != 0 {
			panic(unsupported("regexp with case folding"))
		}
		if len(ins.Rune) == 1 {
			return decide(tt.Eq(b, c8(ins.Rune[0])))
		}
		res := tFalse
		for k := 0; k+1 < len(ins.Rune); k += 2 {
			lo, hi := ins.Rune[k], ins.Rune[k+1]
			if lo == hi {
				res = tt.Or(res, tt.Eq(b, c8(lo)))
			} else {
				res = tt.Or(res, tt.And(tt.Cmp(OULe, c8(lo), b), tt.Cmp(OULe, b, c8(hi))))
			}
		}
		return decide(res)
	}
	emptyOK := func(op syntax.EmptyOp, i int) bool {
		if op&syntax.EmptyBeginText != 0 && i != 0 {
			return false
		}
		if op&syntax.EmptyEndText != 0 && i != n {
			return false
		}
		if op&syntax.EmptyBeginLine != 0 && i != 0 && !decide(tt.Eq(s.At(i-1), nl8)) {
			return false
		}
		if op&syntax.EmptyEndLine != 0 && i != n && !decide(tt.Eq(s.At(i), nl8)) {
			return false
		}
		if op&(syntax.EmptyWordBoundary|syntax.EmptyNoWordBoundary) != 0 {
			panic(unsupported("regexp submatch with word boundary"))
		}
		return true
	}
	type job struct {
		pc, pos int
		caps    []int
	}
	for start := 0; start <= n; start++ {
		visited := map[[2]int]bool{}
		caps0 := make([]int, ncap)
		for i := range caps0 {
			caps0[i] = -1
		}
		stack := []job{{prog.Start, start, caps0}}
		for len(stack) > 0 {
			j := stack[len(stack)-1]
			stack = stack[:len(stack)-1]
			pc, pos, caps := j.pc, j.pos, j.caps
		run:
			for {
				key := [2]int{pc, pos}
				if visited[key] {
					break run
				}
				visited[key] = true
				ins := &prog.Inst[pc]
				switch ins.Op {
				case syntax.InstFail:
					break run
				case syntax.InstAlt, syntax.InstAltMatch:
					stack = append(stack, job{int(ins.Arg), pos, append([]int(nil), caps...)})
					pc = int(ins.Out)
				case syntax.InstNop:
					pc = int(ins.Out)
				case syntax.InstCapture:
					if int(ins.Arg) < len(caps) {
						caps = append([]int(nil), caps...)
						caps[ins.Arg] = pos
					}
					pc = int(ins.Out)
				case syntax.InstEmptyWidth:
					if !emptyOK(syntax.EmptyOp(ins.Arg), pos) {
						break run
					}
					pc = int(ins.Out)
				case syntax.InstMatch:
					out := make([]Str, ncap/2)
					for g := range out {
						if caps[2*g] >= 0 && caps[2*g+1] >= 0 {
							out[g] = s.Slice(caps[2*g], caps[2*g+1])
						} else {
							out[g] = mkStr("")
						}
					}
					return out
				default:
					if pos >= n {
						break run
					}
					r, width := runeAt(pos)
					if !runeOK(ins, r) {
						break run
					}
					pos += width
					pc = int(ins.Out)
				}
			}
		}
		// unanchored programs may start later; anchored ones fail at once on their ^ test
	}
	return nil
}
