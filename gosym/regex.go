package main

// Regular-expression matching on concrete-length symbolic strings, encoded as
// position × NFA-state reachability conditions (no forking).

import (
	"regexp"
	"regexp/syntax"
	"sync"
	"unicode"
)

type compiledRE struct {
	prog      *syntax.Prog
	asciiOnly bool // every rune class is a subset of ASCII
	re        *regexp.Regexp
}

var reCache sync.Map

func compileRE(pat string) *compiledRE {
	if c, ok := reCache.Load(pat); ok {
		return c.(*compiledRE)
	}
	re, err := syntax.Parse(pat, syntax.Perl)
	if err != nil {
		panic(unsupported("regexp parse: " + err.Error()))
	}
	prog, err := syntax.Compile(re.Simplify())
	if err != nil {
		panic(unsupported("regexp compile: " + err.Error()))
	}
	c := &compiledRE{prog: prog, asciiOnly: true, re: regexp.MustCompile(pat)}
	for _, ins := range prog.Inst {
		switch ins.Op {
		case syntax.InstRuneAny, syntax.InstRuneAnyNotNL:
			c.asciiOnly = false
		case syntax.InstRune, syntax.InstRune1:
			if syntax.Flags(ins.Arg)&syntax.FoldCase != 0 {
				panic(unsupported("regexp with case folding"))
			}
			for _, r := range ins.Rune {
				if r >= 0x80 {
					c.asciiOnly = false
				}
			}
		}
	}
	reCache.Store(pat, c)
	return c
}

func (in *Interp) requireASCII(s Str, what string) {
	tt := in.tt
	cond := tTrue
	for i := 0; i < s.Len(); i++ {
		cond = tt.And(cond, tt.Cmp(OULt, s.At(i), mkConst(8, 0x80)))
	}
	if cond.IsConst() {
		if cond.c == 0 {
			panic(unsupported(what + " on non-ASCII input"))
		}
		return
	}
	if !in.w.branchT(cond) {
		panic(unsupported(what + " on non-ASCII symbolic input"))
	}
}

func (in *Interp) regexMatch(pat string, s Str) *Term {
	c := compileRE(pat)
	if s.opaque {
		panic(unsupported("regexp on opaque string"))
	}
	if s.IsConcrete() {
		return mkBool(c.re.MatchString(s.Concrete()))
	}
	if !c.asciiOnly {
		in.requireASCII(s, "regexp with non-ASCII classes")
	}
	tt := in.tt
	prog := c.prog
	n := s.Len()
	isWord := func(b *Term) *Term {
		c8 := func(v byte) *Term { return mkConst(8, uint64(v)) }
		rng := func(lo, hi byte) *Term { return tt.And(tt.Cmp(OULe, c8(lo), b), tt.Cmp(OULe, b, c8(hi))) }
		return tt.Or(tt.Or(rng('a', 'z'), rng('A', 'Z')), tt.Or(rng('0', '9'), tt.Eq(b, c8('_'))))
	}
	emptyCond := func(op syntax.EmptyOp, i int) *Term {
		res := tTrue
		if op&syntax.EmptyBeginText != 0 {
			res = tt.And(res, mkBool(i == 0))
		}
		if op&syntax.EmptyEndText != 0 {
			res = tt.And(res, mkBool(i == n))
		}
		if op&syntax.EmptyBeginLine != 0 {
			if i != 0 {
				res = tt.And(res, tt.Eq(s.At(i-1), mkConst(8, '\n')))
			}
		}
		if op&syntax.EmptyEndLine != 0 {
			if i != n {
				res = tt.And(res, tt.Eq(s.At(i), mkConst(8, '\n')))
			}
		}
		if op&(syntax.EmptyWordBoundary|syntax.EmptyNoWordBoundary) != 0 {
			l, r := tFalse, tFalse
			if i > 0 {
				l = isWord(s.At(i - 1))
			}
			if i < n {
				r = isWord(s.At(i))
			}
			bnd := tt.Not(tt.Eq(l, r))
			if op&syntax.EmptyWordBoundary != 0 {
				res = tt.And(res, bnd)
			}
			if op&syntax.EmptyNoWordBoundary != 0 {
				res = tt.And(res, tt.Not(bnd))
			}
		}
		return res
	}
	matched := tFalse
	cur := map[int]*Term{}
	var order []int
	onStack := map[int]bool{}
	var add func(set map[int]*Term, ord *[]int, pc int, cond *Term, i int)
	add = func(set map[int]*Term, ord *[]int, pc int, cond *Term, i int) {
		if cond == tFalse || onStack[pc] {
			return
		}
		ins := &prog.Inst[pc]
		switch ins.Op {
		case syntax.InstFail:
			return
		case syntax.InstAlt, syntax.InstAltMatch:
			onStack[pc] = true
			add(set, ord, int(ins.Out), cond, i)
			add(set, ord, int(ins.Arg), cond, i)
			onStack[pc] = false
		case syntax.InstNop, syntax.InstCapture:
			onStack[pc] = true
			add(set, ord, int(ins.Out), cond, i)
			onStack[pc] = false
		case syntax.InstEmptyWidth:
			onStack[pc] = true
			add(set, ord, int(ins.Out), tt.And(cond, emptyCond(syntax.EmptyOp(ins.Arg), i)), i)
			onStack[pc] = false
		case syntax.InstMatch:
			matched = tt.Or(matched, cond)
		default:
			if old, ok := set[pc]; ok {
				set[pc] = tt.Or(old, cond)
			} else {
				set[pc] = cond
				*ord = append(*ord, pc)
			}
		}
	}
	runeCond := func(ins *syntax.Inst, b *Term) *Term {
		c8 := func(v rune) *Term { return mkConst(8, uint64(v)) }
		switch ins.Op {
		case syntax.InstRuneAny:
			return tTrue
		case syntax.InstRuneAnyNotNL:
			return tt.Not(tt.Eq(b, c8('\n')))
		}
		if len(ins.Rune) == 1 {
			if ins.Rune[0] >= 0x80 {
				return tFalse
			}
			return tt.Eq(b, c8(ins.Rune[0]))
		}
		res := tFalse
		for k := 0; k+1 < len(ins.Rune); k += 2 {
			lo, hi := ins.Rune[k], ins.Rune[k+1]
			if lo >= 0x80 {
				continue
			}
			if hi >= 0x80 {
				// class extends beyond ASCII; input is known ASCII here
				hi = 0x7f
			}
			if lo == hi {
				res = tt.Or(res, tt.Eq(b, c8(lo)))
			} else {
				res = tt.Or(res, tt.And(tt.Cmp(OULe, c8(lo), b), tt.Cmp(OULe, b, c8(hi))))
			}
		}
		return res
	}
	_ = unicode.MaxRune
	for i := 0; i <= n; i++ {
		// a new thread may start at every position (unanchored search)
		add(cur, &order, prog.Start, tTrue, i)
		if i == n {
			break
		}
		next := map[int]*Term{}
		var nord []int
		b := s.At(i)
		for _, pc := range order {
			ins := &prog.Inst[pc]
			c := tt.And(cur[pc], runeCond(ins, b))
			add(next, &nord, int(ins.Out), c, i+1)
		}
		cur, order = next, nord
	}
	return matched
}
