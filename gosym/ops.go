package main

import (
	"unsafe"
	"fmt"
	"go/token"
	"go/types"
	"unicode/utf8"

	"golang.org/x/tools/go/ssa"
)

func (in *Interp) unop(instr *ssa.UnOp, x Value) Value {
	switch instr.Op {
	case token.MUL:
		return in.load(x)
	case token.NOT:
		return in.tt.Not(x.(*Term))
	case token.SUB:
		if f, ok := x.(Float); ok {
			return Float{-f.f}
		}
		return in.tt.Neg(x.(*Term))
	case token.XOR:
		return in.tt.BNot(x.(*Term))
	}
	panic(unsupported("unary op " + instr.Op.String()))
}

func (in *Interp) strLess(a, b Str) *Term {
	if a.opaque || b.opaque {
		panic(unsupported("comparison of opaque string"))
	}
	if a.b == nil && b.b == nil {
		return mkBool(a.s < b.s)
	}
	tt := in.tt
	n := a.Len()
	if b.Len() < n {
		n = b.Len()
	}
	res := mkBool(a.Len() < b.Len())
	for i := n - 1; i >= 0; i-- {
		x, y := a.At(i), b.At(i)
		res = tt.Ite(tt.Eq(x, y), res, tt.Cmp(OULt, x, y))
	}
	return res
}

func (in *Interp) strEq(a, b Str) *Term {
	if a.Len() != b.Len() {
		if a.opaque || b.opaque {
			panic(unsupported("comparison of opaque string"))
		}
		return tFalse
	}
	if a.opaque || b.opaque {
		panic(unsupported("comparison of opaque string"))
	}
	if a.b == nil && b.b == nil {
		return mkBool(a.s == b.s)
	}
	tt := in.tt
	res := tTrue
	for i := a.Len() - 1; i >= 0; i-- {
		res = tt.And(tt.Eq(a.At(i), b.At(i)), res)
		if res == tFalse {
			return res
		}
	}
	return res
}

// eq builds the Go == relation as a boolean term.
func (in *Interp) eq(x, y Value) *Term {
	switch x := x.(type) {
	case *Term:
		return in.tt.Eq(x, y.(*Term))
	case Str:
		return in.strEq(x, y.(Str))
	case Ptr:
		switch y := y.(type) {
		case Ptr:
			return mkBool(x == y)
		case SymPtr:
			panic(unsupported("comparison of symbolic-index pointer"))
		}
		return mkBool(x == nil && y == nil)
	case Iface:
		yi, ok := y.(Iface)
		if !ok {
			panic(fmt.Sprintf("eq iface vs %T", y))
		}
		if x.T == nil || yi.T == nil {
			return mkBool(x.T == nil && yi.T == nil)
		}
		if !types.Identical(x.T, yi.T) {
			return tFalse
		}
		return in.eq(x.V, yi.V)
	case Struct:
		ys := y.(Struct)
		res := tTrue
		for i := range x {
			res = in.tt.And(res, in.eq(x[i], ys[i]))
		}
		return res
	case Arr:
		ys := y.(Arr)
		if len(x) > 1 {
			// byte arrays (hashes): compare as one wide bit-vector, so that the
			// bytes of a 256-bit hash term re-assemble to the term itself
			bytes := true
			for i := range x {
				tx, ok1 := x[i].(*Term)
				ty, ok2 := ys[i].(*Term)
				if !ok1 || !ok2 || tx.w != 8 || ty.w != 8 {
					bytes = false
					break
				}
			}
			if bytes {
				xs, yt := make([]*Term, len(x)), make([]*Term, len(x))
				for i := range x {
					xs[i], yt[i] = x[i].(*Term), ys[i].(*Term)
				}
				return in.tt.Eq(in.packBytes(xs, len(xs)), in.packBytes(yt, len(yt)))
			}
		}
		res := tTrue
		for i := range x {
			res = in.tt.And(res, in.eq(x[i], ys[i]))
		}
		return res
	case Slice:
		ys, _ := y.(Slice)
		return mkBool(x.IsNil() && ys.IsNil())
	case *Map:
		ym, _ := y.(*Map)
		return mkBool(x == ym)
	case *Closure:
		yc, _ := y.(*Closure)
		if y == nil {
			return mkBool(x == nil)
		}
		return mkBool(x == yc)
	case *ssa.Function:
		switch y := y.(type) {
		case *Closure:
			return mkBool(x == nil && y == nil)
		case *ssa.Function:
			return mkBool(x == y)
		}
		return mkBool(x == nil)
	case *Native:
		return mkBool(false)
	case Float:
		return mkBool(x.f == y.(Float).f)
	case nil:
		switch y := y.(type) {
		case nil:
			return tTrue
		case *Closure:
			return mkBool(y == nil)
		case Ptr:
			return mkBool(y == nil)
		}
		return tFalse
	}
	panic(unsupported(fmt.Sprintf("== on %T", x)))
}

func (in *Interp) binop(op token.Token, xt, yt types.Type, x, y Value) Value {
	tt := in.tt
	switch xv := x.(type) {
	case *Term:
		yv, ok := y.(*Term)
		if !ok {
			panic(fmt.Sprintf("binop %v: %T vs %T", op, x, y))
		}
		if xv.w == 0 {
			switch op {
			case token.EQL:
				return tt.Eq(xv, yv)
			case token.NEQ:
				return tt.Not(tt.Eq(xv, yv))
			case token.AND, token.LAND:
				return tt.And(xv, yv)
			case token.OR, token.LOR:
				return tt.Or(xv, yv)
			}
			panic(unsupported("bool binop " + op.String()))
		}
		_, signed, _ := intType(xt)
		switch op {
		case token.ADD:
			return tt.Bin(OAdd, xv, yv)
		case token.SUB:
			return tt.Bin(OSub, xv, yv)
		case token.MUL:
			return tt.Bin(OMul, xv, yv)
		case token.QUO, token.REM:
			if yv.IsConst() {
				if yv.c == 0 {
					panic(in.runtimeError("integer divide by zero"))
				}
			} else if in.w.branchT(tt.Eq(yv, mkConst(yv.w, 0))) {
				panic(in.runtimeError("integer divide by zero"))
			}
			var o Op
			switch {
			case op == token.QUO && signed:
				o = OSDiv
			case op == token.QUO:
				o = OUDiv
			case signed:
				o = OSRem
			default:
				o = OURem
			}
			return tt.Bin(o, xv, yv)
		case token.AND:
			return tt.Bin(OBAnd, xv, yv)
		case token.OR:
			return tt.Bin(OBOr, xv, yv)
		case token.XOR:
			return tt.Bin(OBXor, xv, yv)
		case token.AND_NOT:
			return tt.Bin(OBAnd, xv, tt.BNot(yv))
		case token.SHL, token.SHR:
			// shift count: any integer type
			_, ysigned, _ := intType(yt)
			if ysigned {
				if yv.IsConst() {
					if yv.sval() < 0 {
						panic(in.runtimeError("negative shift amount"))
					}
				} else if in.w.branchT(tt.Cmp(OSLt, yv, mkConst(yv.w, 0))) {
					panic(in.runtimeError("negative shift amount"))
				}
			}
			var cnt *Term
			var tooBig *Term = tFalse
			if yv.w <= xv.w {
				cnt = tt.Zext(yv, xv.w)
			} else {
				cnt = tt.Extract(yv, xv.w-1, 0)
				tooBig = tt.Not(tt.Cmp(OULt, yv, mkConst(yv.w, uint64(xv.w))))
			}
			var o Op
			switch {
			case op == token.SHL:
				o = OShl
			case signed:
				o = OAShr
			default:
				o = OLShr
			}
			r := tt.Bin(o, xv, cnt)
			if tooBig != tFalse {
				var sat *Term
				if o == OAShr {
					sat = tt.Bin(OAShr, xv, mkConst(xv.w, uint64(xv.w-1)))
				} else {
					sat = mkConst(xv.w, 0)
				}
				r = tt.Ite(tooBig, sat, r)
			}
			return r
		case token.EQL:
			return tt.Eq(xv, yv)
		case token.NEQ:
			return tt.Not(tt.Eq(xv, yv))
		case token.LSS:
			if signed {
				return tt.Cmp(OSLt, xv, yv)
			}
			return tt.Cmp(OULt, xv, yv)
		case token.LEQ:
			if signed {
				return tt.Cmp(OSLe, xv, yv)
			}
			return tt.Cmp(OULe, xv, yv)
		case token.GTR:
			if signed {
				return tt.Cmp(OSLt, yv, xv)
			}
			return tt.Cmp(OULt, yv, xv)
		case token.GEQ:
			if signed {
				return tt.Cmp(OSLe, yv, xv)
			}
			return tt.Cmp(OULe, yv, xv)
		}
	case Str:
		yv := y.(Str)
		switch op {
		case token.ADD:
			return strConcat(xv, yv)
		case token.EQL:
			return in.strEq(xv, yv)
		case token.NEQ:
			return tt.Not(in.strEq(xv, yv))
		case token.LSS:
			return in.strLess(xv, yv)
		case token.LEQ:
			return tt.Not(in.strLess(yv, xv))
		case token.GTR:
			return in.strLess(yv, xv)
		case token.GEQ:
			return tt.Not(in.strLess(xv, yv))
		}
	case Float:
		yv := y.(Float)
		switch op {
		case token.ADD:
			return Float{xv.f + yv.f}
		case token.SUB:
			return Float{xv.f - yv.f}
		case token.MUL:
			return Float{xv.f * yv.f}
		case token.QUO:
			return Float{xv.f / yv.f}
		case token.EQL:
			return mkBool(xv.f == yv.f)
		case token.NEQ:
			return mkBool(xv.f != yv.f)
		case token.LSS:
			return mkBool(xv.f < yv.f)
		case token.LEQ:
			return mkBool(xv.f <= yv.f)
		case token.GTR:
			return mkBool(xv.f > yv.f)
		case token.GEQ:
			return mkBool(xv.f >= yv.f)
		}
	}
	switch op {
	case token.EQL:
		return in.eq(x, y)
	case token.NEQ:
		return tt.Not(in.eq(x, y))
	}
	panic(unsupported(fmt.Sprintf("binop %v on %T", op, x)))
}

func (in *Interp) conv(dst, src types.Type, x Value) Value {
	ud, us := dst.Underlying(), src.Underlying()
	tt := in.tt
	// type-parameterised conversions are instantiated away
	switch ud := ud.(type) {
	case *types.Basic:
		switch {
		case ud.Info()&types.IsInteger != 0:
			dw, _ := basicWidth(ud)
			switch xv := x.(type) {
			case *Term:
				_, ssigned, _ := intType(src)
				if xv.w == dw {
					return xv
				}
				if xv.w > dw {
					return tt.Extract(xv, dw-1, 0)
				}
				if ssigned {
					return tt.Sext(xv, dw)
				}
				return tt.Zext(xv, dw)
			case Float:
				return mkConst(dw, uint64(int64(xv.f)))
			case Ptr:
				panic(unsupported("pointer to integer conversion"))
			}
		case ud.Info()&types.IsFloat != 0:
			switch xv := x.(type) {
			case Float:
				return xv
			case *Term:
				if !xv.IsConst() {
					panic(unsupported("symbolic int to float"))
				}
				_, ssigned, _ := intType(src)
				if ssigned {
					return Float{float64(xv.sval())}
				}
				return Float{float64(xv.c)}
			}
		case ud.Info()&types.IsString != 0:
			switch xv := x.(type) {
			case Str:
				return xv
			case *Term:
				// string(rune)
				if xv.IsConst() {
					_, ssigned, _ := intType(src)
					var r rune
					if ssigned {
						v := xv.sval()
						if v < 0 || v > utf8.MaxRune {
							r = utf8.RuneError
						} else {
							r = rune(v)
						}
					} else if xv.c > utf8.MaxRune {
						r = utf8.RuneError
					} else {
						r = rune(xv.c)
					}
					return mkStr(string(r))
				}
				// symbolic rune: ASCII case is one byte; otherwise encode via utf8.AppendRune
				return in.runeToString(xv, src)
			case Slice:
				et := us.(*types.Slice).Elem().Underlying().(*types.Basic)
				if et.Kind() == types.Uint8 {
					b := make([]*Term, xv.Len)
					for i := 0; i < xv.Len; i++ {
						b[i] = xv.A[xv.Off+i].(*Term)
					}
					return strFromTerms(b)
				}
				// []rune -> string
				res := Str{}
				for i := 0; i < xv.Len; i++ {
					res = strConcat(res, in.conv(dst, et, xv.A[xv.Off+i]).(Str))
				}
				return res
			}
		case ud.Kind() == types.UnsafePointer:
			if p, ok := x.(Ptr); ok {
				return p
			}
			panic(unsupported("conversion to unsafe.Pointer"))
		case ud.Info()&types.IsBoolean != 0:
			return x
		}
	case *types.Slice:
		if xs, ok := x.(Str); ok {
			et := ud.Elem().Underlying().(*types.Basic)
			if xs.opaque {
				panic(unsupported("[]byte of opaque string"))
			}
			if et.Kind() == types.Uint8 {
				a := make([]Value, xs.Len())
				for i := range a {
					a[i] = xs.At(i)
				}
				return Slice{A: a, Len: len(a), Cap: len(a), nonNil: true}
			}
			// []rune(string)
			var a []Value
			pos := 0
			for pos < xs.Len() {
				r, size := in.decodeRune(xs, pos)
				a = append(a, r)
				pos += size
			}
			return Slice{A: a, Len: len(a), Cap: len(a), nonNil: true}
		}
		return x
	case *types.Pointer:
		if _, ok := us.(*types.Basic); ok {
			// unsafe.Pointer -> *T
			if p, ok := x.(Ptr); ok {
				return p
			}
			panic(unsupported("conversion from unsafe.Pointer"))
		}
		return x
	default:
		return x
	}
	panic(unsupported(fmt.Sprintf("conversion %v -> %v of %T", src, dst, x)))
}

// runeToString encodes a symbolic rune as UTF-8, forking on the encoded length.
func (in *Interp) runeToString(r *Term, src types.Type) Str {
	tt := in.tt
	w := r.w
	r32 := r
	if w < 32 {
		_, s, _ := intType(src)
		if s {
			r32 = tt.Sext(r, 32)
		} else {
			r32 = tt.Zext(r, 32)
		}
	} else if w > 32 {
		// out-of-range values become RuneError
		inRange := tt.Cmp(OULe, r, mkConst(w, utf8.MaxRune))
		if !in.w.branchT(inRange) {
			return mkStr(string(utf8.RuneError))
		}
		r32 = tt.Extract(r, 31, 0)
	}
	c32 := func(v uint64) *Term { return mkConst(32, v) }
	b8 := func(t *Term) *Term { return tt.Extract(t, 7, 0) }
	if in.w.branchT(tt.Cmp(OULt, r32, c32(0x80))) {
		return strFromTerms([]*Term{b8(r32)})
	}
	if in.w.branchT(tt.Cmp(OULt, r32, c32(0x800))) {
		return strFromTerms([]*Term{
			b8(tt.Bin(OBOr, c32(0xC0), tt.Bin(OLShr, r32, c32(6)))),
			b8(tt.Bin(OBOr, c32(0x80), tt.Bin(OBAnd, r32, c32(0x3F)))),
		})
	}
	bad := tt.Or(tt.Cmp(OULt, c32(utf8.MaxRune), r32),
		tt.And(tt.Cmp(OULe, c32(0xD800), r32), tt.Cmp(OULe, r32, c32(0xDFFF))))
	if in.w.branchT(bad) {
		return mkStr(string(utf8.RuneError))
	}
	if in.w.branchT(tt.Cmp(OULt, r32, c32(0x10000))) {
		return strFromTerms([]*Term{
			b8(tt.Bin(OBOr, c32(0xE0), tt.Bin(OLShr, r32, c32(12)))),
			b8(tt.Bin(OBOr, c32(0x80), tt.Bin(OBAnd, tt.Bin(OLShr, r32, c32(6)), c32(0x3F)))),
			b8(tt.Bin(OBOr, c32(0x80), tt.Bin(OBAnd, r32, c32(0x3F)))),
		})
	}
	return strFromTerms([]*Term{
		b8(tt.Bin(OBOr, c32(0xF0), tt.Bin(OLShr, r32, c32(18)))),
		b8(tt.Bin(OBOr, c32(0x80), tt.Bin(OBAnd, tt.Bin(OLShr, r32, c32(12)), c32(0x3F)))),
		b8(tt.Bin(OBOr, c32(0x80), tt.Bin(OBAnd, tt.Bin(OLShr, r32, c32(6)), c32(0x3F)))),
		b8(tt.Bin(OBOr, c32(0x80), tt.Bin(OBAnd, r32, c32(0x3F)))),
	})
}

// decodeRune decodes the UTF-8 sequence at s[pos:], forking on its shape.
// It mirrors unicode/utf8.DecodeRuneInString.
func (in *Interp) decodeRune(s Str, pos int) (*Term, int) {
	if s.opaque {
		panic(unsupported("decode of opaque string"))
	}
	n := s.Len() - pos
	if n < 1 {
		return mkConst(32, utf8.RuneError), 0
	}
	if s.b == nil {
		r, size := utf8.DecodeRuneInString(s.s[pos:])
		return mkConst(32, uint64(r)), size
	}
	allConst := true
	for i := pos; i < s.Len() && i < pos+4; i++ {
		if !s.b[i].IsConst() {
			allConst = false
		}
	}
	if allConst {
		var buf [4]byte
		k := 0
		for i := pos; i < s.Len() && i < pos+4; i++ {
			buf[k] = byte(s.b[i].c)
			k++
		}
		r, size := utf8.DecodeRune(buf[:k])
		return mkConst(32, uint64(r)), size
	}
	tt := in.tt
	w := in.w
	c8 := func(v uint64) *Term { return mkConst(8, v) }
	z32 := func(t *Term) *Term { return tt.Zext(t, 32) }
	c32 := func(v uint64) *Term { return mkConst(32, v) }
	rerr := mkConst(32, utf8.RuneError)
	b0 := s.b[pos]
	if w.branchT(tt.Cmp(OULt, b0, c8(0x80))) {
		return z32(b0), 1
	}
	// invalid leading bytes: 0x80-0xC1, 0xF5-0xFF
	if w.branchT(tt.Or(tt.Cmp(OULt, b0, c8(0xC2)), tt.Cmp(OULt, c8(0xF4), b0))) {
		return rerr, 1
	}
	cont := func(b *Term, lo, hi uint64) *Term {
		return tt.And(tt.Cmp(OULe, c8(lo), b), tt.Cmp(OULe, b, c8(hi)))
	}
	low6 := func(b *Term) *Term { return tt.Bin(OBAnd, z32(b), c32(0x3F)) }
	if w.branchT(tt.Cmp(OULt, b0, c8(0xE0))) {
		// two bytes
		if n < 2 {
			return rerr, 1
		}
		b1 := s.b[pos+1]
		if !w.branchT(cont(b1, 0x80, 0xBF)) {
			return rerr, 1
		}
		r := tt.Bin(OBOr, tt.Bin(OShl, tt.Bin(OBAnd, z32(b0), c32(0x1F)), c32(6)), low6(b1))
		return r, 2
	}
	if w.branchT(tt.Cmp(OULt, b0, c8(0xF0))) {
		// three bytes; second byte range depends on b0
		if n < 2 {
			return rerr, 1
		}
		b1 := s.b[pos+1]
		lo := tt.Ite(tt.Eq(b0, c8(0xE0)), c8(0xA0), c8(0x80))
		hi := tt.Ite(tt.Eq(b0, c8(0xED)), c8(0x9F), c8(0xBF))
		if !w.branchT(tt.And(tt.Cmp(OULe, lo, b1), tt.Cmp(OULe, b1, hi))) {
			return rerr, 1
		}
		if n < 3 {
			return rerr, 1
		}
		b2 := s.b[pos+2]
		if !w.branchT(cont(b2, 0x80, 0xBF)) {
			return rerr, 1
		}
		r := tt.Bin(OBOr, tt.Bin(OBOr,
			tt.Bin(OShl, tt.Bin(OBAnd, z32(b0), c32(0x0F)), c32(12)),
			tt.Bin(OShl, low6(b1), c32(6))), low6(b2))
		return r, 3
	}
	// four bytes
	if n < 2 {
		return rerr, 1
	}
	b1 := s.b[pos+1]
	lo := tt.Ite(tt.Eq(b0, c8(0xF0)), c8(0x90), c8(0x80))
	hi := tt.Ite(tt.Eq(b0, c8(0xF4)), c8(0x8F), c8(0xBF))
	if !w.branchT(tt.And(tt.Cmp(OULe, lo, b1), tt.Cmp(OULe, b1, hi))) {
		return rerr, 1
	}
	if n < 3 {
		return rerr, 1
	}
	b2 := s.b[pos+2]
	if !w.branchT(cont(b2, 0x80, 0xBF)) {
		return rerr, 1
	}
	if n < 4 {
		return rerr, 1
	}
	b3 := s.b[pos+3]
	if !w.branchT(cont(b3, 0x80, 0xBF)) {
		return rerr, 1
	}
	r := tt.Bin(OBOr, tt.Bin(OBOr, tt.Bin(OBOr,
		tt.Bin(OShl, tt.Bin(OBAnd, z32(b0), c32(0x07)), c32(18)),
		tt.Bin(OShl, low6(b1), c32(12))),
		tt.Bin(OShl, low6(b2), c32(6))), low6(b3))
	return r, 4
}

// ---- maps ----

type tomb struct{}

func (in *Interp) mapFind(m *Map, key Value) int {
	if m == nil {
		return -1
	}
	ck, conc := concreteKey(key)
	if conc && !m.sym {
		if p, ok := m.index[ck]; ok {
			return p
		}
		return -1
	}
	for i, k := range m.keys {
		if _, dead := k.(tomb); dead {
			continue
		}
		c := in.eq(k, key)
		if c.IsConst() {
			if c.c != 0 {
				return i
			}
			continue
		}
		if in.w.branchT(c) {
			return i
		}
	}
	return -1
}

func (in *Interp) mapUpdate(m *Map, key, val Value) {
	p := in.mapFind(m, key)
	if p >= 0 {
		m.vals[p] = copyVal(val)
		return
	}
	m.keys = append(m.keys, copyVal(key))
	m.vals = append(m.vals, copyVal(val))
	if ck, conc := concreteKey(key); conc {
		m.index[ck] = len(m.keys) - 1
	} else {
		m.sym = true
	}
}

func (in *Interp) mapDelete(m *Map, key Value) {
	p := in.mapFind(m, key)
	if p < 0 {
		return
	}
	if ck, conc := concreteKey(m.keys[p]); conc {
		delete(m.index, ck)
	}
	m.keys[p] = tomb{}
	m.vals[p] = nil
}

func (m *Map) Len() int {
	if m == nil {
		return 0
	}
	n := 0
	for _, k := range m.keys {
		if _, dead := k.(tomb); !dead {
			n++
		}
	}
	return n
}

func (in *Interp) lookup(instr *ssa.Lookup, x, idx Value) Value {
	switch x := x.(type) {
	case Str:
		return in.index(x, idx, instr.Index.Type())
	case *Map:
		p := in.mapFind(x, idx)
		var v Value
		if p >= 0 {
			v = copyVal(x.vals[p])
		} else {
			v = zero(instr.X.Type().Underlying().(*types.Map).Elem())
		}
		if instr.CommaOk {
			return Tuple{v, mkBool(p >= 0)}
		}
		return v
	}
	panic(unsupported(fmt.Sprintf("Lookup on %T", x)))
}

// ---- range ----

type iterator interface {
	next(in *Interp) Value
}

type strIter struct {
	s   Str
	pos int
}

func (it *strIter) next(in *Interp) Value {
	if it.pos >= it.s.Len() {
		return Tuple{tFalse, mkConst(64, 0), mkConst(32, 0)}
	}
	r, size := in.decodeRune(it.s, it.pos)
	k := mkConst(64, uint64(it.pos))
	it.pos += size
	return Tuple{tTrue, k, r}
}

type mapIter struct {
	m     *Map
	order []int
	pos   int
}

func (it *mapIter) next(in *Interp) Value {
	for it.pos < len(it.order) {
		p := it.order[it.pos]
		it.pos++
		if _, dead := it.m.keys[p].(tomb); dead {
			continue
		}
		return Tuple{tTrue, copyVal(it.m.keys[p]), copyVal(it.m.vals[p])}
	}
	return Tuple{tFalse, nil, nil}
}

func (in *Interp) rangeIter(x Value, t types.Type) Value {
	switch x := x.(type) {
	case Str:
		return &strIter{s: x}
	case *Map:
		it := &mapIter{m: x}
		if x != nil {
			for i, k := range x.keys {
				if _, dead := k.(tomb); !dead {
					it.order = append(it.order, i)
				}
			}
			if in.mapPermute && len(it.order) >= 2 && len(it.order) <= 4 {
				perms := permutations(len(it.order))
				c := in.w.choose(len(perms), "maporder")
				no := make([]int, len(it.order))
				for i, pi := range perms[c] {
					no[i] = it.order[pi]
				}
				it.order = no
			}
		}
		return it
	}
	panic(unsupported(fmt.Sprintf("range over %T", x)))
}

func permutations(n int) [][]int {
	var res [][]int
	var rec func(cur []int, used []bool)
	rec = func(cur []int, used []bool) {
		if len(cur) == n {
			res = append(res, append([]int(nil), cur...))
			return
		}
		for i := 0; i < n; i++ {
			if !used[i] {
				used[i] = true
				rec(append(cur, i), used)
				used[i] = false
			}
		}
	}
	rec(nil, make([]bool, n))
	return res
}

// ---- builtins ----

var classToSize = []int{0, 8, 16, 24, 32, 48, 64, 80, 96, 112, 128, 144, 160, 176, 192, 208, 224, 240, 256, 288, 320, 352, 384, 416, 448, 480, 512, 576, 640, 704, 768, 896, 1024, 1152, 1280, 1408, 1536, 1792, 2048, 2304, 2688, 3072, 3200, 3456, 4096, 4864, 5120, 5376, 6144, 6528, 6784, 6912, 8192, 9472, 9728, 10240, 10880, 12288, 13568, 14336, 16384, 18432, 19072, 20480, 21760, 24576, 27264, 28672, 32768}

func roundupsize(size int, noscan bool) int {
	req := size
	if req <= 32768-8 {
		if !noscan && req > 512 {
			req += 8
		}
		for _, c := range classToSize {
			if c >= req {
				return c - (req - size)
			}
		}
	}
	req += 8191
	return req &^ 8191
}

func hasPointers(t types.Type) bool {
	switch u := t.Underlying().(type) {
	case *types.Basic:
		return u.Kind() == types.String || u.Kind() == types.UnsafePointer
	case *types.Struct:
		for i := 0; i < u.NumFields(); i++ {
			if hasPointers(u.Field(i).Type()) {
				return true
			}
		}
		return false
	case *types.Array:
		return u.Len() > 0 && hasPointers(u.Elem())
	}
	return true
}

// growCap ports runtime.growslice's capacity computation (go1.20+).
func (in *Interp) growCap(et types.Type, oldCap, newLen int) int {
	newcap := oldCap
	doublecap := newcap + newcap
	if newLen > doublecap {
		newcap = newLen
	} else {
		const threshold = 256
		if oldCap < threshold {
			newcap = doublecap
		} else {
			for {
				newcap += (newcap + 3*threshold) >> 2
				if uint(newcap) >= uint(newLen) {
					break
				}
			}
		}
	}
	esz := int(in.sizes.Sizeof(et))
	if esz == 0 {
		return newcap
	}
	mem := roundupsize(newcap*esz, !hasPointers(et))
	return mem / esz
}

func (in *Interp) appendSlice(st types.Type, s Slice, elems []Value) Slice {
	if len(elems) == 0 {
		return s
	}
	et := st.Underlying().(*types.Slice).Elem()
	newLen := s.Len + len(elems)
	if newLen <= s.Cap {
		for i, e := range elems {
			s.A[s.Off+s.Len+i] = copyVal(e)
		}
		s.Len = newLen
		return s
	}
	nc := in.growCap(et, s.Cap, newLen)
	a := make([]Value, nc)
	copy(a, s.A[s.Off:s.Off+s.Len])
	for i, e := range elems {
		a[s.Len+i] = copyVal(e)
	}
	z := zero(et)
	_, scalar := z.(*Term)
	for i := newLen; i < nc; i++ {
		if scalar {
			a[i] = z
		} else {
			a[i] = zero(et)
		}
	}
	return Slice{A: a, Off: 0, Len: newLen, Cap: nc, nonNil: true}
}

func sliceElems(v Value) []Value {
	switch v := v.(type) {
	case Slice:
		return v.A[v.Off : v.Off+v.Len]
	case Str:
		if v.opaque {
			panic(unsupported("bytes of opaque string"))
		}
		r := make([]Value, v.Len())
		for i := range r {
			r[i] = v.At(i)
		}
		return r
	}
	panic(fmt.Sprintf("sliceElems of %T", v))
}

func (in *Interp) callBuiltin(caller *frame, fn *ssa.Builtin, args []Value) Value {
	tt := in.tt
	switch fn.Name() {
	case "append":
		s := args[0].(Slice)
		if len(args) == 1 {
			return s
		}
		st := fn.Type().(*types.Signature).Params().At(0).Type()
		return in.appendSlice(st, s, sliceElems(args[1]))
	case "copy":
		dst := args[0].(Slice)
		src := sliceElems(args[1])
		n := dst.Len
		if len(src) < n {
			n = len(src)
		}
		// memmove semantics
		tmp := make([]Value, n)
		for i := 0; i < n; i++ {
			tmp[i] = copyVal(src[i])
		}
		copy(dst.A[dst.Off:dst.Off+n], tmp)
		return mkConst(64, uint64(n))
	case "len":
		switch x := args[0].(type) {
		case Str:
			return mkConst(64, uint64(x.Len()))
		case Slice:
			return mkConst(64, uint64(x.Len))
		case *Map:
			return mkConst(64, uint64(x.Len()))
		case Arr:
			return mkConst(64, uint64(len(x)))
		case Ptr:
			return mkConst(64, uint64(len((*x).(Arr))))
		case nil:
			return mkConst(64, 0)
		}
	case "cap":
		switch x := args[0].(type) {
		case Slice:
			return mkConst(64, uint64(x.Cap))
		case Arr:
			return mkConst(64, uint64(len(x)))
		case Ptr:
			return mkConst(64, uint64(len((*x).(Arr))))
		}
	case "delete":
		in.mapDelete(args[0].(*Map), args[1])
		return nil
	case "clear":
		switch x := args[0].(type) {
		case *Map:
			if x != nil {
				x.keys, x.vals, x.index, x.sym = nil, nil, map[string]int{}, false
			}
		case Slice:
			st := fn.Type().(*types.Signature).Params().At(0).Type()
			et := st.Underlying().(*types.Slice).Elem()
			for i := 0; i < x.Len; i++ {
				x.A[x.Off+i] = zero(et)
			}
		}
		return nil
	case "String":
		// unsafe.String(ptr, n): the n cells starting at ptr lie in one backing
		// array of the interpreted program, hence in one []Value of ours
		if p, ok := args[0].(Ptr); ok {
			n, okn := args[1].(*Term)
			if okn && n.IsConst() {
				if n.c == 0 {
					return mkStr("")
				}
				cells := unsafe.Slice((*Value)(p), int(n.c))
				ts := make([]*Term, len(cells))
				for i, c := range cells {
					ts[i] = c.(*Term)
				}
				return strFromTerms(ts)
			}
		}
	case "print", "println":
		return nil
	case "panic":
		panic(targetPanic{args[0]})
	case "recover":
		return in.doRecover(caller)
	case "ssa:wrapnilchk":
		if p, ok := args[0].(Ptr); ok && p == nil {
			panic(in.runtimeError("value method called using nil pointer"))
		}
		return args[0]
	case "min", "max":
		isMin := fn.Name() == "min"
		res := args[0]
		pt := fn.Type().(*types.Signature).Params().At(0).Type()
		for _, a := range args[1:] {
			switch r := res.(type) {
			case *Term:
				_, signed, _ := intType(pt)
				op := OULt
				if signed {
					op = OSLt
				}
				var c *Term
				if isMin {
					c = tt.Cmp(op, a.(*Term), r)
				} else {
					c = tt.Cmp(op, r, a.(*Term))
				}
				res = tt.Ite(c, a.(*Term), r)
			case Str:
				var c *Term
				if isMin {
					c = in.strLess(a.(Str), r)
				} else {
					c = in.strLess(r, a.(Str))
				}
				if c.IsConst() {
					if c.c != 0 {
						res = a
					}
				} else if in.w.branchT(c) {
					res = a
				}
			default:
				panic(unsupported("min/max on " + fmt.Sprintf("%T", res)))
			}
		}
		return res
	}
	panic(unsupported(fmt.Sprintf("builtin %s on %T", fn.Name(), args)))
}
