package main

import (
	"encoding/json"
	"flag"
	"fmt"
	"os"
	"os/exec"
	"path/filepath"
	"regexp"
	"runtime"
	"runtime/debug"
	"runtime/pprof"
	"sort"
	"strconv"
	"strings"
	"time"

	"golang.org/x/tools/go/packages"
	"golang.org/x/tools/go/ssa"
	"golang.org/x/tools/go/ssa/ssautil"
)

const modulePath = "golang.org/x/mod"

type HarnessCfg struct {
	Pkg      string         `json:"pkg"`  // directory under the repo, e.g. "semver"
	Name     string         `json:"name"` // registered harness name
	Fn       string         `json:"fn"`   // Go function name
	Quick    map[string]int `json:"quick"`
	Thorough map[string]int `json:"thorough"`
	Opts     []string       `json:"opts,omitempty"`
	Bounds   string         `json:"bounds,omitempty"`
	Twin     bool           `json:"twin,omitempty"` // reachability witness: must be violated
}

type PropCfg struct {
	ID           string       `json:"id"`
	Harnesses    []HarnessCfg `json:"harnesses"`
	Assumptions  []string     `json:"assumptions"`
	OutsideClaim []string     `json:"outside_claim"`
	Stubs        []string     `json:"stubs"`
}

type Loaded struct {
	prog    *ssa.Program
	pkgs    map[string]*ssa.Package // by dir
	repo    string
	workDir string
	overlay map[string][]byte
	loadS   float64
	ids     map[string][]string // per pkg dir: vReach/vAssert ids per function (unused)
}

var verifDir = "/verif"

func repoDir() string {
	if r := os.Getenv("VERIF_REPO"); r != "" {
		return r
	}
	return "/repo"
}

// buildOverlay maps harness sources into the repo's package directories.
func buildOverlay(repo string, pkgDirs []string) (map[string][]byte, error) {
	ov := map[string][]byte{}
	tmpl, err := os.ReadFile(filepath.Join(verifDir, "harness", "support.go.tmpl"))
	if err != nil {
		return nil, err
	}
	rtmpl, err := os.ReadFile(filepath.Join(verifDir, "harness", "replay_test.go.tmpl"))
	if err != nil {
		return nil, err
	}
	for _, d := range pkgDirs {
		pkgName := filepath.Base(d)
		files, _ := filepath.Glob(filepath.Join(verifDir, "harness", d, "*.go"))
		sort.Strings(files)
		for _, f := range files {
			data, err := os.ReadFile(f)
			if err != nil {
				return nil, err
			}
			ov[filepath.Join(repo, d, "zz_verif_"+filepath.Base(f))] = data
		}
		ov[filepath.Join(repo, d, "zz_verif_support.go")] = []byte(strings.ReplaceAll(string(tmpl), "PKGNAME", pkgName))
		ov[filepath.Join(repo, d, "zz_verif_replay_test.go")] = []byte(strings.ReplaceAll(string(rtmpl), "PKGNAME", pkgName))
	}
	return ov, nil
}

func load(pkgDirs []string) (*Loaded, error) {
	start := time.Now()
	repo := repoDir()
	ov, err := buildOverlay(repo, pkgDirs)
	if err != nil {
		return nil, err
	}
	cfg := &packages.Config{
		Mode:       packages.LoadAllSyntax,
		Dir:        repo,
		Overlay:    ov,
		BuildFlags: []string{"-tags=verif"},
		Env:        append(os.Environ(), "GOFLAGS=-mod=mod", "GOPROXY=off", "GOSUMDB=off", "GOTOOLCHAIN=local"),
	}
	var patterns []string
	for _, d := range pkgDirs {
		patterns = append(patterns, "./"+d)
	}
	initial, err := packages.Load(cfg, patterns...)
	if err != nil {
		return nil, err
	}
	nerr := 0
	packages.Visit(initial, nil, func(p *packages.Package) {
		for _, e := range p.Errors {
			if strings.HasPrefix(p.PkgPath, modulePath) {
				fmt.Fprintln(os.Stderr, "load error:", e)
				nerr++
			}
		}
	})
	if nerr > 0 {
		return nil, fmt.Errorf("%d package load errors", nerr)
	}
	prog, ipkgs := ssautil.AllPackages(initial, ssa.InstantiateGenerics)
	prog.Build()
	l := &Loaded{prog: prog, pkgs: map[string]*ssa.Package{}, repo: repo, overlay: ov}
	for i, p := range initial {
		rel := strings.TrimPrefix(strings.TrimPrefix(p.PkgPath, modulePath), "/")
		l.pkgs[rel] = ipkgs[i]
	}
	l.loadS = time.Since(start).Seconds()
	return l, nil
}

// ---- evidence ----

type HarnessResult struct {
	Name         string            `json:"name"`
	Params       map[string]int    `json:"params"`
	Bounds       string            `json:"bounds,omitempty"`
	Paths        int64             `json:"paths"`
	PathsOK      int64             `json:"paths_completed"`
	AssumeKilled int64             `json:"paths_killed_by_assume"`
	Obligations  int64             `json:"assertion_queries"`
	Discharged   int64             `json:"assertion_queries_unsat"`
	TrivialOK    int64             `json:"assertions_folded_true"`
	Queries      int64             `json:"solver_queries"`
	SolverS      float64           `json:"solver_time_s"`
	WallS        float64           `json:"wall_s"`
	Unknown      int64             `json:"unknown"`
	UnknownFeas  int64             `json:"unknown_feasibility_kept"`
	Unsupported  int64             `json:"unsupported_paths"`
	UnwoundOut   int64             `json:"unwound_out"`
	EngineErr    int64             `json:"engine_errors"`
	Violations   int               `json:"violations"`
	Reach        map[string]int64  `json:"reach"`
	Asserts      map[string]int64  `json:"assert_sites_reached"`
	Vacuous      []string          `json:"vacuous,omitempty"`
	Inconclusive []string          `json:"inconclusive,omitempty"`
	AssumeKill   map[string]int64  `json:"assume_kill_sites,omitempty"`
	Steps        int64             `json:"ssa_instructions_executed"`
	TimedOut     bool              `json:"timed_out,omitempty"`
	Twin         bool              `json:"twin,omitempty"`
	TwinOK       bool              `json:"twin_violated_as_expected,omitempty"`
	Extra        map[string]string `json:"extra,omitempty"`
}

type Evidence struct {
	PropertyID  string                 `json:"property_id"`
	Tier        string                 `json:"tier"`
	Seed        int                    `json:"seed"`
	Level       string                 `json:"level"`
	Coverage    map[string]interface{} `json:"coverage"`
	Assumptions []string               `json:"assumptions"`
	WallS       float64                `json:"wall_s"`
	Violations  int                    `json:"violations"`
}

var idRE = regexp.MustCompile(`v(Reach|Assert)\("([^"]+)"`)

// staticIDs extracts the vReach / vAssert ids that appear in a harness function's source file region.
func staticIDs(src string, fn string) (reach, asserts []string) {
	// find "func <fn>(" and take until the next top-level "\nfunc "
	i := strings.Index(src, "func "+fn+"(")
	if i < 0 {
		return
	}
	rest := src[i:]
	if j := strings.Index(rest[1:], "\nfunc "); j >= 0 {
		rest = rest[:j+1]
	}
	seenR, seenA := map[string]bool{}, map[string]bool{}
	for _, m := range idRE.FindAllStringSubmatch(rest, -1) {
		if m[1] == "Reach" && !seenR[m[2]] {
			seenR[m[2]] = true
			reach = append(reach, m[2])
		}
		if m[1] == "Assert" && !seenA[m[2]] {
			seenA[m[2]] = true
			asserts = append(asserts, m[2])
		}
	}
	return
}

type KnownFinding struct {
	Property string `json:"property"`
	Status   string `json:"status"` // known | fixed
	ID       string `json:"id"`
	Where    string `json:"where"`
	What     string `json:"what"`
	Commit   string `json:"commit,omitempty"`
}

func loadKnown() []KnownFinding {
	var out []KnownFinding
	data, err := os.ReadFile(filepath.Join(verifDir, "known_findings.jsonl"))
	if err != nil {
		return nil
	}
	for _, line := range strings.Split(string(data), "\n") {
		line = strings.TrimSpace(line)
		if line == "" || strings.HasPrefix(line, "#") {
			continue
		}
		var k KnownFinding
		if json.Unmarshal([]byte(line), &k) == nil {
			out = append(out, k)
		}
	}
	return out
}

func loadProps() map[string]*PropCfg {
	data, err := os.ReadFile(filepath.Join(verifDir, "props.json"))
	if err != nil {
		fmt.Fprintln(os.Stderr, "props.json:", err)
		os.Exit(2)
	}
	var list []*PropCfg
	if err := json.Unmarshal(data, &list); err != nil {
		fmt.Fprintln(os.Stderr, "props.json:", err)
		os.Exit(2)
	}
	m := map[string]*PropCfg{}
	for _, p := range list {
		m[p.ID] = p
	}
	return m
}

func harnessSource(pkgDir string) string {
	files, _ := filepath.Glob(filepath.Join(verifDir, "harness", pkgDir, "*.go"))
	var sb strings.Builder
	for _, f := range files {
		b, _ := os.ReadFile(f)
		sb.Write(b)
		sb.WriteString("\n")
	}
	return sb.String()
}

// replayNative runs the harness natively on the given inputs and reports
// whether the named assertion fails there as well.
func replayNative(l *Loaded, h HarnessCfg, params map[string]int, v Violation, dir string) (bool, string) {
	os.MkdirAll(dir, 0755)
	type inputs struct {
		Harness string         `json:"harness"`
		Params  map[string]int `json:"params"`
		Draws   []DrawVal      `json:"draws"`
		Assert  string         `json:"assert"`
		Pkg     string         `json:"pkg"`
	}
	data, _ := json.MarshalIndent(inputs{Harness: strings.TrimPrefix(h.Fn, "Verif"), Params: params, Draws: v.Inputs, Assert: v.Assert, Pkg: h.Pkg}, "", " ")
	inPath := filepath.Join(dir, "inputs.json")
	os.WriteFile(inPath, data, 0644)
	out, err := runNative(l, h.Pkg, inPath, dir)
	os.WriteFile(filepath.Join(dir, "native_output.txt"), []byte(out), 0644)
	if err != nil && !strings.Contains(out, "REPLAY-RESULT") {
		return false, "native run failed: " + err.Error() + "\n" + out
	}
	if strings.Contains(out, "ASSERT-FAILED "+v.Assert+"\n") {
		return true, out
	}
	return false, out
}

func runNative(l *Loaded, pkgDir, inPath, dir string) (string, error) {
	// materialise the overlay for `go test -overlay`
	ovDir := filepath.Join(dir, "overlay")
	os.MkdirAll(ovDir, 0755)
	repl := map[string]string{}
	i := 0
	for virt, content := range l.overlay {
		real := filepath.Join(ovDir, fmt.Sprintf("%d_%s", i, filepath.Base(virt)))
		i++
		os.WriteFile(real, content, 0644)
		repl[virt] = real
	}
	ovJSON, _ := json.Marshal(map[string]interface{}{"Replace": repl})
	ovPath := filepath.Join(dir, "overlay.json")
	os.WriteFile(ovPath, ovJSON, 0644)
	cmd := exec.Command("go", "test", "-tags", "verif", "-vet=off", "-count=1", "-overlay", ovPath, "-run", "^TestVerifReplay$", "-v", "./"+pkgDir)
	cmd.Dir = l.repo
	cmd.Env = append(os.Environ(), "GOFLAGS=-mod=mod", "GOPROXY=off", "GOSUMDB=off", "GOTOOLCHAIN=local", "VERIF_INPUTS="+inPath)
	out, err := cmd.CombinedOutput()
	return string(out), err
}

func paramsFor(h HarnessCfg, tier string) map[string]int {
	p := map[string]int{}
	for k, v := range h.Quick {
		p[k] = v
	}
	if tier == "thorough" {
		for k, v := range h.Thorough {
			p[k] = v
		}
	}
	return p
}

var curParams map[string]int

func init() {
	harnessAPI["vParam"] = func(in *Interp, c *frame, fn *ssa.Function, a []Value) Value {
		name := argStr(a[0])
		if v, ok := curParams[name]; ok {
			return mkConst(64, uint64(int64(v)))
		}
		return a[1]
	}
}

func runOne(l *Loaded, h HarnessCfg, params map[string]int, nworkers int, solver string, timeoutMs int, deadline time.Time, trace bool) (*Shared, *HarnessResult, error) {
	pkg := l.pkgs[h.Pkg]
	if pkg == nil {
		return nil, nil, fmt.Errorf("package %q not loaded", h.Pkg)
	}
	fn := pkg.Func(h.Fn)
	if fn == nil {
		return nil, nil, fmt.Errorf("harness function %s.%s not found", h.Pkg, h.Fn)
	}
	curParams = params
	start := time.Now()
	opts := map[string]bool{"trace": trace}
	for _, o := range h.Opts {
		opts[o] = true
	}
	solverLogic = "QF_BV"
	if opts["uf"] {
		solverLogic = "QF_UFBV"
	}
	sh := RunHarness(l.prog, fn, h.Name, nworkers, solver, timeoutMs, deadline, opts)
	st := sh.stats
	res := &HarnessResult{
		Name: h.Name, Params: params, Bounds: h.Bounds, Paths: st.Paths, PathsOK: st.PathsOK, AssumeKilled: st.AssumeKilled,
		Obligations: st.Obligations, Discharged: st.Discharged, TrivialOK: st.TrivialOK, Queries: st.Queries,
		SolverS: st.SolverTime.Seconds(), WallS: time.Since(start).Seconds(), Unknown: st.UnknownAsrt, UnknownFeas: st.UnknownFeas,
		Unsupported: st.Unsupported, UnwoundOut: st.Budget, EngineErr: st.Engine, Violations: len(sh.violations),
		Reach: sh.reach, Asserts: sh.asserts, Steps: st.Steps, TimedOut: sh.timedOut, Twin: h.Twin, AssumeKill: sh.assumeKill,
	}
	for _, ic := range sh.inconcl {
		res.Inconclusive = append(res.Inconclusive, ic.Kind+": "+firstLine(ic.Msg))
	}
	// vacuity: every static vReach / vAssert id must have been reached
	src := harnessSource(h.Pkg)
	reach, asserts := staticIDs(src, h.Fn)
	if sh.stoppedEarly {
		reach, asserts = nil, nil
	}
	for _, id := range reach {
		if sh.reach[id] == 0 {
			res.Vacuous = append(res.Vacuous, "reach:"+id)
		}
	}
	for _, id := range asserts {
		if sh.asserts[id] == 0 {
			res.Vacuous = append(res.Vacuous, "assert:"+id)
		}
	}
	return sh, res, nil
}

func cmdCheck(args []string) int {
	fs := flag.NewFlagSet("check", flag.ExitOnError)
	prop := fs.String("prop", "", "property id")
	tier := fs.String("tier", "quick", "quick|thorough")
	nw := fs.Int("j", runtime.NumCPU(), "workers")
	solver := fs.String("solver", "z3", "z3|z3-new|cvc5")
	only := fs.String("only", "", "run only this harness")
	trace := fs.Bool("trace", false, "trace")
	fs.BoolVar(&verbose, "v", false, "verbose")
	fs.Parse(args)
	props := loadProps()
	pc := props[*prop]
	if pc == nil {
		fmt.Fprintf(os.Stderr, "unknown property %q\n", *prop)
		return 2
	}
	seed := 0
	if s := os.Getenv("VERIF_SEED"); s != "" {
		seed, _ = strconv.Atoi(s)
	}
	start := time.Now()
	timeoutMs := 60000
	if *tier == "thorough" {
		timeoutMs = 300000
	}
	var dirs []string
	seenDir := map[string]bool{}
	for _, h := range pc.Harnesses {
		if !seenDir[h.Pkg] {
			seenDir[h.Pkg] = true
			dirs = append(dirs, h.Pkg)
		}
	}
	l, err := load(dirs)
	if err != nil {
		fmt.Fprintln(os.Stderr, "load:", err)
		fmt.Printf("INCONCLUSIVE property=%s load failed: %v\n", *prop, err)
		return 2
	}
	known := loadKnown()
	knownByID := map[string]KnownFinding{}
	for _, k := range known {
		if k.Property == *prop {
			knownByID[k.ID] = k
		}
	}
	var results []*HarnessResult
	var samples []interface{}
	exit := 0
	inconclusive := 0
	totViol := 0
	funcs := map[string]bool{}
	intrs := map[string]bool{}
	var knownLines []string
	replayed := 0
	workRoot := filepath.Join(verifDir, ".work", fmt.Sprintf("%s-%d", *prop, os.Getpid()))
	defer os.RemoveAll(workRoot)
	for _, h := range pc.Harnesses {
		if *only != "" && h.Name != *only {
			continue
		}
		params := paramsFor(h, *tier)
		sh, res, err := runOne(l, h, params, *nw, *solver, timeoutMs, time.Time{}, *trace)
		if err != nil {
			fmt.Printf("INCONCLUSIVE property=%s harness=%s %v\n", *prop, h.Name, err)
			inconclusive++
			continue
		}
		results = append(results, res)
		for k := range sh.funcs {
			funcs[k] = true
		}
		for k := range sh.intrs {
			intrs[k] = true
		}
		for i, s := range sh.samples {
			if i < 3 {
				samples = append(samples, map[string]interface{}{"harness": h.Name, "inputs": renderInputs(s)})
			}
		}
		fmt.Printf("harness %-28s paths=%d ok=%d assume-killed=%d asserts(sym)=%d unsat=%d folded=%d queries=%d solver=%.1fs wall=%.1fs viol=%d unknown=%d unsupported=%d unwound=%d engine=%d\n",
			h.Name, res.Paths, res.PathsOK, res.AssumeKilled, res.Obligations, res.Discharged, res.TrivialOK, res.Queries, res.SolverS, res.WallS, res.Violations, res.Unknown, res.Unsupported, res.UnwoundOut, res.EngineErr)
		for _, ic := range sh.inconcl {
			fmt.Printf("INCONCLUSIVE property=%s harness=%s %s: %s\n", *prop, h.Name, ic.Kind, firstLine(ic.Msg))
			if verbose {
				fmt.Println(ic.Msg)
			}
			inconclusive++
		}
		for _, v := range res.Vacuous {
			fmt.Printf("INCONCLUSIVE property=%s harness=%s vacuous: %s never reached\n", *prop, h.Name, v)
			inconclusive++
		}
		if h.Twin {
			// reachability witness: its final assertion must be violated and replay natively
			ok := false
			for i, v := range sh.violations {
				dir := filepath.Join(workRoot, fmt.Sprintf("twin-%s-%d", h.Name, i))
				if r, _ := replayNative(l, h, params, v, dir); r {
					ok = true
					replayed++
					break
				}
			}
			res.TwinOK = ok
			if !ok {
				fmt.Printf("INCONCLUSIVE property=%s harness=%s reachability twin was not violated (vacuous harness?)\n", *prop, h.Name)
				inconclusive++
			}
			res.Violations = 0
			continue
		}
		for i, v := range sh.violations {
			dir := filepath.Join(verifDir, "replays", fmt.Sprintf("%s-%s-%d", *prop, h.Name, i))
			os.RemoveAll(dir)
			reproduced, out := replayNative(l, h, params, v, dir)
			replayed++
			if !reproduced {
				fmt.Printf("INCONCLUSIVE property=%s harness=%s ENGINE-DIVERGENCE: model for assertion %q does not reproduce natively (see %s)\n", *prop, h.Name, v.Assert, dir)
				if verbose {
					fmt.Println(out)
				}
				inconclusive++
				continue
			}
			if v.Known != "" {
				if k, ok := knownByID[v.Known]; ok && k.Status == "known" {
					line := fmt.Sprintf("KNOWN-FINDING: property=%s %s: %s", *prop, k.ID, k.What)
					dup := false
					for _, kl := range knownLines {
						if kl == line {
							dup = true
						}
					}
					if !dup {
						knownLines = append(knownLines, line)
						fmt.Println(line)
					}
					os.RemoveAll(dir)
					continue
				}
			}
			totViol++
			fmt.Printf("VIOLATION property=%s replay=%s\n", *prop, filepath.Join(dir, "inputs.json"))
			fmt.Printf("  harness=%s assertion=%s inputs=%s\n", h.Name, v.Assert, renderInputs(v.Inputs))
			exit = 1
		}
	}
	// evidence
	var states, transitions, oblig, disch int64
	var solverS float64
	bounds := map[string]interface{}{}
	for _, r := range results {
		if r.Twin {
			continue
		}
		states += r.Paths
		transitions += r.Queries
		oblig += r.Obligations
		disch += r.Discharged
		solverS += r.SolverS
		bounds[r.Name] = map[string]interface{}{"params": r.Params, "bounds": r.Bounds}
	}
	if len(samples) == 0 {
		samples = append(samples, "no symbolic inputs on completed paths")
	}
	status := "holds-within-bounds"
	if exit == 1 {
		status = "violated"
	} else if inconclusive > 0 {
		status = "inconclusive"
	}
	ev := Evidence{
		PropertyID: *prop, Tier: *tier, Seed: seed, Level: "model_checking",
		Coverage: map[string]interface{}{
			"states":                        max64(states, 1),
			"transitions":                   max64(transitions, 1),
			"traces_validated_against_impl": replayed,
			"samples":                       samples,
			"obligations":                   oblig,
			"discharged":                    disch,
			"status":                        status,
			"states_meaning":                "feasible paths explored through the SSA of the real functions",
			"transitions_meaning":           "SMT queries (feasibility and assertion)",
			"harnesses":                     results,
			"bounds":                        bounds,
			"functions_encoded":             repoFuncs(funcs),
			"stdlib_functions_from_ssa":     len(funcs) - len(repoFuncs(funcs)),
			"intrinsics_used":               sortedKeys(intrs),
			"outside_claim":                 pc.OutsideClaim,
			"stubs":                         pc.Stubs,
			"solver":                        *solver,
			"solver_time_s":                 solverS,
			"load_ssa_s":                    l.loadS,
			"inconclusive":                  inconclusive,
			"known_findings_reported":       knownLines,
			"exhaustive":                    false,
			"explanation":                   "bounded symbolic execution of the go/ssa form of the current /repo tree; every assertion query was decided by the SMT solver for all input values within the stated bounds",
		},
		Assumptions: pc.Assumptions,
		WallS:       time.Since(start).Seconds(),
		Violations:  totViol,
	}
	os.MkdirAll(filepath.Join(verifDir, "evidence"), 0755)
	data, _ := json.MarshalIndent(ev, "", " ")
	os.WriteFile(filepath.Join(verifDir, "evidence", *prop+".json"), data, 0644)
	if exit == 0 && inconclusive > 0 {
		fmt.Printf("RESULT property=%s inconclusive (%d issues); no violation found within bounds\n", *prop, inconclusive)
		if os.Getenv("VERIF_STRICT") != "" {
			return 3
		}
		return 0
	}
	if exit == 0 {
		fmt.Printf("RESULT property=%s holds within bounds: %d paths, %d assertion queries all unsat, %.1fs\n", *prop, states, oblig, time.Since(start).Seconds())
	}
	return exit
}

func max64(a, b int64) int64 {
	if a > b {
		return a
	}
	return b
}

func repoFuncs(m map[string]bool) []string {
	var r []string
	for k := range m {
		if strings.Contains(k, modulePath) && !strings.Contains(k, ".Verif") && !strings.Contains(k, ".v") {
			r = append(r, strings.ReplaceAll(k, modulePath+"/", ""))
		}
	}
	sort.Strings(r)
	return r
}

func renderInputs(ds []DrawVal) string {
	var sb strings.Builder
	for i, d := range ds {
		if i > 0 {
			sb.WriteString(" ")
		}
		switch d.Kind {
		case "choice":
			fmt.Fprintf(&sb, "%s=%d", d.Name, d.N)
		case "string", "bytes":
			fmt.Fprintf(&sb, "%s=%q", d.Name, string(d.B))
		case "hash":
			fmt.Fprintf(&sb, "%s=%x", d.Name, d.B)
		default:
			fmt.Fprintf(&sb, "%s=%d", d.Name, d.N)
		}
	}
	return sb.String()
}

func cmdRun(args []string) int {
	fs := flag.NewFlagSet("run", flag.ExitOnError)
	pkg := fs.String("pkg", "", "package dir")
	fn := fs.String("fn", "", "harness function")
	nw := fs.Int("j", runtime.NumCPU(), "workers")
	solver := fs.String("solver", "z3", "solver")
	trace := fs.Bool("trace", false, "trace instructions")
	uf := fs.Bool("uf", false, "harness uses uninterpreted functions (QF_UFBV)")
	replay := fs.Bool("replay", false, "replay violations natively")
	pstr := fs.String("p", "", "params k=v,k=v")
	tlim := fs.Int("t", 0, "time limit in seconds (0 = none)")
	fs.BoolVar(&verbose, "v", false, "verbose")
	fs.Parse(args)
	params := map[string]int{}
	for _, kv := range strings.Split(*pstr, ",") {
		if kv == "" {
			continue
		}
		p := strings.SplitN(kv, "=", 2)
		n, _ := strconv.Atoi(p[1])
		params[p[0]] = n
	}
	l, err := load([]string{*pkg})
	if err != nil {
		fmt.Fprintln(os.Stderr, err)
		return 2
	}
	fmt.Printf("loaded in %.1fs\n", l.loadS)
	name := strings.TrimPrefix(*fn, "Verif")
	h := HarnessCfg{Pkg: *pkg, Name: name, Fn: *fn}
	if *uf {
		h.Opts = []string{"uf"}
	}
	var dl time.Time
	if *tlim > 0 {
		dl = time.Now().Add(time.Duration(*tlim) * time.Second)
	}
	sh, res, err := runOne(l, h, params, *nw, *solver, 60000, dl, *trace)
	if err != nil {
		fmt.Fprintln(os.Stderr, err)
		return 2
	}
	data, _ := json.MarshalIndent(res, "", " ")
	fmt.Println(string(data))
	for _, ic := range sh.inconcl {
		fmt.Printf("INCONCLUSIVE %s: %s\n", ic.Kind, ic.Msg)
	}
	for i, v := range sh.violations {
		fmt.Printf("violation %d: assert=%s inputs=%s msg=%s\n", i, v.Assert, renderInputs(v.Inputs), v.Msg)
		if *replay {
			dir := filepath.Join(verifDir, ".work", fmt.Sprintf("run-%d-%d", os.Getpid(), i))
			ok, out := replayNative(l, h, params, v, dir)
			fmt.Printf("  native replay reproduced=%v\n", ok)
			if !ok || verbose {
				fmt.Println(out)
			}
			os.RemoveAll(dir)
		}
	}
	for i, s := range sh.samples {
		if i < 5 {
			fmt.Printf("sample: %s\n", renderInputs(s))
		}
	}
	return 0
}

func cmdReplay(args []string) int {
	// gosym replay <inputs.json>: rerun natively against the current tree
	if len(args) < 1 {
		fmt.Fprintln(os.Stderr, "usage: gosym replay <inputs.json>")
		return 2
	}
	data, err := os.ReadFile(args[0])
	if err != nil {
		fmt.Fprintln(os.Stderr, err)
		return 2
	}
	var in struct {
		Pkg    string `json:"pkg"`
		Assert string `json:"assert"`
	}
	json.Unmarshal(data, &in)
	ov, err := buildOverlay(repoDir(), []string{in.Pkg})
	if err != nil {
		fmt.Fprintln(os.Stderr, err)
		return 2
	}
	l := &Loaded{repo: repoDir(), overlay: ov}
	dir, _ := os.MkdirTemp(filepath.Join(verifDir, ".work"), "replay")
	defer os.RemoveAll(dir)
	abs, _ := filepath.Abs(args[0])
	out, _ := runNative(l, in.Pkg, abs, dir)
	fmt.Print(out)
	if strings.Contains(out, "ASSERT-FAILED "+in.Assert+"\n") {
		fmt.Printf("replay: assertion %q fails natively\n", in.Assert)
		return 1
	}
	fmt.Println("replay: assertion holds natively")
	return 0
}

var exitFn = os.Exit

func main() {
	if len(os.Args) < 2 {
		fmt.Fprintln(os.Stderr, "usage: gosym check|run|replay|selftest ...")
		os.Exit(2)
	}
	if v := os.Getenv("VERIF_DIR"); v != "" {
		verifDir = v
	}
	os.MkdirAll(filepath.Join(verifDir, ".work"), 0755)
	if os.Getenv("GOGC") == "" {
		debug.SetGCPercent(200) // the interpreter allocates short-lived values at a high rate
	}
	if pf := os.Getenv("GOSYM_PROF"); pf != "" {
		f, _ := os.Create(pf)
		pprof.StartCPUProfile(f)
		defer pprof.StopCPUProfile()
		prevExit := exitFn
		exitFn = func(c int) { pprof.StopCPUProfile(); prevExit(c) }
	}
	if mf := os.Getenv("GOSYM_MEMPROF"); mf != "" {
		prev := exitFn
		exitFn = func(c int) {
			f, _ := os.Create(mf)
			pprof.WriteHeapProfile(f)
			f.Close()
			prev(c)
		}
	}
	switch os.Args[1] {
	case "check":
		exitFn(cmdCheck(os.Args[2:]))
	case "run":
		exitFn(cmdRun(os.Args[2:]))
	case "replay":
		exitFn(cmdReplay(os.Args[2:]))
	case "selftest":
		exitFn(cmdSelftest(os.Args[2:]))
	}
	fmt.Fprintln(os.Stderr, "unknown command", os.Args[1])
	os.Exit(2)
}
