package main

import (
	"fmt"
	"go/constant"
	"go/token"
	"go/types"
	"runtime"
	"runtime/debug"
	"strings"

	"golang.org/x/tools/go/ssa"
)

// pathEnd terminates the current path (not a target-program panic).
type pathEnd struct {
	kind string // "assume", "unsupported", "budget", "engine", "stop"
	msg  string
}

// targetPanic is a panic raised by the interpreted program.
type targetPanic struct{ v Value }

type Poison struct{ msg string }

type fnInfo struct {
	idx map[ssa.Value]int
	n   int
}

type deferred struct {
	fn   Value
	args []Value
}

type frame struct {
	in          *Interp
	caller      *frame
	fn          *ssa.Function
	info        *fnInfo
	env         []Value
	block, prev *ssa.BasicBlock
	defers      []*deferred
	result      Value
	panicking   bool
	panicVal    interface{}
}

type Interp struct {
	prog       *ssa.Program
	tt         *TermTable
	w          *Worker
	globals    map[*ssa.Global]*Value
	fnInfos    map[*ssa.Function]*fnInfo
	consts     map[*ssa.Const]Value
	pkgInit    map[*ssa.Package]int // 1 = running, 2 = done
	initMode   int
	steps      int64
	maxSteps   int64
	depth      int
	maxDepth   int
	sizes      types.Sizes
	rtErrType  types.Type
	onceDone   map[Ptr]bool
	trace      bool
	funcsSeen  map[string]bool // functions executed (for evidence)
	intrSeen   map[string]bool // intrinsics used
	pathState  map[string]interface{}
	mapPermute bool
	// hash fully concrete messages with the real SHA-256 instead of the
	// uninterpreted function (only for harnesses that never compare such
	// digests with abstract ones)
	shaRealConst bool
}

func newInterp(prog *ssa.Program, tt *TermTable) *Interp {
	in := &Interp{
		prog:      prog,
		tt:        tt,
		globals:   make(map[*ssa.Global]*Value),
		fnInfos:   make(map[*ssa.Function]*fnInfo),
		consts:    make(map[*ssa.Const]Value),
		pkgInit:   make(map[*ssa.Package]int),
		maxSteps:  20_000_000,
		maxDepth:  400,
		sizes:     types.SizesFor("gc", "amd64"),
		funcsSeen: make(map[string]bool),
		intrSeen:  make(map[string]bool),
	}
	if rt := prog.ImportedPackage("runtime"); rt != nil {
		if t := rt.Type("errorString"); t != nil {
			in.rtErrType = t.Object().Type()
		}
	}
	return in
}

// resetPath clears per-path state.
func (in *Interp) resetPath() {
	in.steps = 0
	in.depth = 0
	in.onceDone = make(map[Ptr]bool)
	in.pathState = make(map[string]interface{})
}

func (in *Interp) info(fn *ssa.Function) *fnInfo {
	if fi, ok := in.fnInfos[fn]; ok {
		return fi
	}
	fi := &fnInfo{idx: make(map[ssa.Value]int)}
	add := func(v ssa.Value) {
		fi.idx[v] = fi.n
		fi.n++
	}
	for _, p := range fn.Params {
		add(p)
	}
	for _, fv := range fn.FreeVars {
		add(fv)
	}
	for _, b := range fn.Blocks {
		for _, ins := range b.Instrs {
			if v, ok := ins.(ssa.Value); ok {
				add(v)
			}
		}
	}
	in.fnInfos[fn] = fi
	return fi
}

func (in *Interp) runtimeError(msg string) targetPanic {
	return targetPanic{Iface{T: in.rtErrType, V: mkStr("runtime error: " + msg)}}
}

func (in *Interp) constValue(c *ssa.Const) Value {
	if v, ok := in.consts[c]; ok {
		return v
	}
	v := in.constValue0(c)
	in.consts[c] = v
	return v
}

func (in *Interp) constValue0(c *ssa.Const) Value {
	if c.Value == nil {
		return zero(c.Type())
	}
	t := c.Type().Underlying()
	if b, ok := t.(*types.Basic); ok {
		switch {
		case b.Info()&types.IsBoolean != 0:
			return mkBool(constant.BoolVal(c.Value))
		case b.Info()&types.IsString != 0:
			if c.Value.Kind() == constant.String {
				return mkStr(constant.StringVal(c.Value))
			}
			return mkStr(string(rune(c.Int64())))
		case b.Info()&types.IsInteger != 0:
			w, signed := basicWidth(b)
			if signed {
				return mkConst(w, uint64(c.Int64()))
			}
			return mkConst(w, c.Uint64())
		case b.Info()&types.IsFloat != 0:
			return Float{c.Float64()}
		}
	}
	if _, ok := t.(*types.Interface); ok {
		return Iface{}
	}
	panic(unsupported(fmt.Sprintf("constant %v of type %v", c, c.Type())))
}

func (fr *frame) get(v ssa.Value) Value {
	switch v := v.(type) {
	case nil:
		return nil
	case *ssa.Const:
		return fr.in.constValue(v)
	case *ssa.Global:
		return fr.in.global(v)
	case *ssa.Function:
		return v
	case *ssa.Builtin:
		return v
	}
	i, ok := fr.info.idx[v]
	if !ok {
		panic(fmt.Sprintf("get: no slot for %T %s in %s", v, v.Name(), fr.fn))
	}
	r := fr.env[i]
	if p, isP := r.(Poison); isP {
		panic(unsupported("use of value from unsupported initialiser: " + p.msg))
	}
	return r
}

func (fr *frame) set(v ssa.Value, x Value) {
	fr.env[fr.info.idx[v]] = x
}

// global returns the address of a global, initialising its package lazily.
func (in *Interp) global(g *ssa.Global) Ptr {
	if p, ok := in.globals[g]; ok {
		if in.pkgInit[g.Pkg] == 0 {
			in.initPackage(g.Pkg)
		}
		return p
	}
	cell := new(Value)
	*cell = zero(mustDeref(g.Type()))
	in.globals[g] = cell
	if in.pkgInit[g.Pkg] == 0 {
		in.initPackage(g.Pkg)
	}
	return cell
}

func (in *Interp) initPackage(pkg *ssa.Package) {
	if in.pkgInit[pkg] != 0 {
		return
	}
	in.pkgInit[pkg] = 1
	initFn := pkg.Func("init")
	if initFn == nil || initFn.Blocks == nil {
		in.pkgInit[pkg] = 2
		return
	}
	saveSteps, saveDepth := in.steps, in.depth
	in.initMode++
	func() {
		defer func() {
			in.initMode--
			if r := recover(); r != nil {
				switch r := r.(type) {
				case unsupportedErr:
					// rest of the initialiser is lost; globals keep zero/poison
					if in.trace {
						fmt.Printf("init %s: unsupported: %s\n", pkg.Pkg.Path(), r.msg)
					}
				case targetPanic:
					if in.trace {
						fmt.Printf("init %s: panic: %v\n", pkg.Pkg.Path(), r.v)
					}
				default:
					panic(r)
				}
			}
		}()
		in.callSSA(nil, initFn, nil, nil)
	}()
	in.steps, in.depth = saveSteps, saveDepth
	in.pkgInit[pkg] = 2
}

func mustDeref(t types.Type) types.Type {
	if p, ok := t.Underlying().(*types.Pointer); ok {
		return p.Elem()
	}
	panic("mustDeref: not a pointer: " + t.String())
}

// call dispatches a call to any callable value.
func (in *Interp) call(caller *frame, fn Value, args []Value) Value {
	switch fn := fn.(type) {
	case *ssa.Function:
		if fn == nil {
			panic(in.runtimeError("invalid memory address or nil pointer dereference"))
		}
		return in.callSSA(caller, fn, args, nil)
	case *Closure:
		if fn == nil {
			panic(in.runtimeError("invalid memory address or nil pointer dereference"))
		}
		return in.callSSA(caller, fn.Fn, args, fn.Env)
	case *ssa.Builtin:
		return in.callBuiltin(caller, fn, args)
	case *Native:
		return fn.f(in, args)
	}
	panic(fmt.Sprintf("cannot call %T", fn))
}

func (in *Interp) callSSA(caller *frame, fn *ssa.Function, args []Value, env []Value) Value {
	if in.initMode > 0 {
		// inside a package initialiser an unsupported callee poisons its result
		var res Value
		ok := false
		func() {
			defer func() {
				if ok {
					return
				}
				if r := recover(); r != nil {
					if u, isU := r.(unsupportedErr); isU {
						res = Poison{u.msg}
						return
					}
					panic(r)
				}
			}()
			res = in.callSSA0(caller, fn, args, env)
			ok = true
		}()
		return res
	}
	return in.callSSA0(caller, fn, args, env)
}

func (in *Interp) callSSA0(caller *frame, fn *ssa.Function, args []Value, env []Value) Value {
	if fn.Parent() == nil {
		// package-level function or method: intrinsic?
		if fn.Synthetic == "" || fn.Origin() != nil || true {
			if h := in.lookupIntrinsic(fn); h != nil {
				r := h(in, caller, fn, args)
				if _, fall := r.(useBody); !fall {
					return r
				}
			}
		}
		if fn.Pkg != nil && fn.Name() == "init" && in.initMode > 0 && caller != nil && caller.fn.Name() == "init" && fn.Pkg != caller.fn.Pkg {
			return nil // dependency initialisers run lazily
		}
	}
	if fn.Blocks == nil {
		chain := ""
		for f, k := caller, 0; f != nil && k < 6; f, k = f.caller, k+1 {
			chain += " <- " + f.fn.String()
		}
		panic(unsupported("no body for function " + fn.String() + chain))
	}
	if fn.TypeParams().Len() > 0 && len(fn.TypeArgs()) == 0 {
		panic(unsupported("uninstantiated generic " + fn.String()))
	}
	in.depth++
	if in.depth > in.maxDepth {
		panic(pathEnd{"budget", "call depth exceeded in " + fn.String()})
	}
	defer func() { in.depth-- }()
	if n := fnName(fn); !in.funcsSeen[n] {
		in.funcsSeen[n] = true
	}
	fi := in.info(fn)
	fr := &frame{in: in, caller: caller, fn: fn, info: fi, env: make([]Value, fi.n)}
	for i, p := range fn.Params {
		fr.env[fi.idx[p]] = args[i]
	}
	for i, fv := range fn.FreeVars {
		fr.env[fi.idx[fv]] = env[i]
	}
	for _, l := range fn.Locals {
		cell := new(Value)
		*cell = zero(mustDeref(l.Type()))
		fr.env[fi.idx[l]] = cell
	}
	fr.block = fn.Blocks[0]
	for fr.block != nil {
		fr.run()
	}
	return fr.result
}

func isControlPanic(r interface{}) bool {
	switch r.(type) {
	case pathEnd, unsupportedErr:
		return true
	}
	return false
}

// run executes blocks until return; on a target panic runs defers and
// resumes at the recover block if the panic was recovered.
func (fr *frame) run() {
	defer func() {
		if fr.block == nil {
			return
		}
		r := recover()
		if isControlPanic(r) {
			panic(r)
		}
		if _, ok := r.(targetPanic); !ok {
			// engine bug: convert to a path end with a stack trace
			if _, isRT := r.(runtime.Error); isRT || r != nil {
				panic(pathEnd{"engine", fmt.Sprintf("%v in %s\n%s", r, fr.fn, trimStack(debug.Stack()))})
			}
		}
		fr.panicking = true
		fr.panicVal = r
		fr.runDefers()
		// recovered
		fr.block = fr.fn.Recover
		if fr.block == nil {
			// no named results: return zero values
			fr.result = zeroResults(fr.fn)
		}
	}()
	for {
		blk := fr.block
		instrs := blk.Instrs
		// phis
		np := 0
		for np < len(instrs) {
			if _, ok := instrs[np].(*ssa.Phi); !ok {
				break
			}
			np++
		}
		if np > 0 {
			pi := -1
			for i, p := range blk.Preds {
				if p == fr.prev {
					pi = i
					break
				}
			}
			var tmp [8]Value
			vals := tmp[:0]
			for _, ins := range instrs[:np] {
				vals = append(vals, fr.get(ins.(*ssa.Phi).Edges[pi]))
			}
			for i, ins := range instrs[:np] {
				fr.set(ins.(*ssa.Phi), vals[i])
			}
		}
		fr.in.steps += int64(len(instrs))
		if fr.in.steps > fr.in.maxSteps {
			panic(pathEnd{"budget", "instruction budget exceeded in " + fr.fn.String()})
		}
		jumped := false
		for _, ins := range instrs[np:] {
			switch fr.visit(ins) {
			case kReturn:
				return
			case kJump:
				jumped = true
			}
			if jumped {
				break
			}
		}
		if !jumped {
			panic("block fell through: " + fr.fn.String())
		}
	}
}

func trimStack(b []byte) string {
	s := string(b)
	lines := strings.Split(s, "\n")
	if len(lines) > 40 {
		lines = lines[:40]
	}
	return strings.Join(lines, "\n")
}

func zeroResults(fn *ssa.Function) Value {
	res := fn.Signature.Results()
	switch res.Len() {
	case 0:
		return nil
	case 1:
		return zero(res.At(0).Type())
	}
	return zero(res)
}

func (fr *frame) runDefers() {
	for len(fr.defers) > 0 {
		d := fr.defers[len(fr.defers)-1]
		fr.defers = fr.defers[:len(fr.defers)-1]
		fr.runDefer(d)
	}
	if fr.panicking {
		panic(fr.panicVal)
	}
}

func (fr *frame) runDefer(d *deferred) {
	ok := false
	defer func() {
		if !ok {
			r := recover()
			if isControlPanic(r) {
				panic(r)
			}
			if _, isT := r.(targetPanic); !isT {
				panic(pathEnd{"engine", fmt.Sprintf("%v in deferred call of %s\n%s", r, fr.fn, trimStack(debug.Stack()))})
			}
			fr.panicking = true
			fr.panicVal = r
		}
	}()
	fr.in.call(fr, d.fn, d.args)
	ok = true
}

func (in *Interp) doRecover(caller *frame) Value {
	// caller is the deferred function's frame; caller.caller is panicking
	if caller != nil && !caller.panicking && caller.caller != nil && caller.caller.panicking {
		caller.caller.panicking = false
		p := caller.caller.panicVal
		caller.caller.panicVal = nil
		if tp, ok := p.(targetPanic); ok {
			return tp.v
		}
		panic(fmt.Sprintf("unexpected panic value %T in recover", p))
	}
	return Iface{}
}

type cont int

const (
	kNext cont = iota
	kReturn
	kJump
)

func (fr *frame) prepareCall(c *ssa.CallCommon) (Value, []Value) {
	v := fr.get(c.Value)
	var fn Value
	var args []Value
	if c.Method == nil {
		fn = v
	} else {
		recv, ok := v.(Iface)
		if !ok {
			panic(fmt.Sprintf("invoke on non-interface %T", v))
		}
		if recv.T == nil {
			panic(fr.in.runtimeError("invalid memory address or nil pointer dereference"))
		}
		f := fr.in.prog.LookupMethod(recv.T, c.Method.Pkg(), c.Method.Name())
		if f == nil {
			panic(fmt.Sprintf("no method %s on %s", c.Method.Name(), recv.T))
		}
		fn = f
		args = append(args, recv.V)
	}
	for _, a := range c.Args {
		args = append(args, fr.get(a))
	}
	return fn, args
}

func (fr *frame) visit(instr ssa.Instruction) cont {
	in := fr.in
	if in.trace {
		if v, ok := instr.(ssa.Value); ok {
			fmt.Printf("%*s%s: %s = %s\n", in.depth, "", fr.fn.Name(), v.Name(), instr)
		} else {
			fmt.Printf("%*s%s: %s\n", in.depth, "", fr.fn.Name(), instr)
		}
	}
	switch instr := instr.(type) {
	case *ssa.DebugRef:
	case *ssa.UnOp:
		fr.set(instr, in.unop(instr, fr.get(instr.X)))
	case *ssa.BinOp:
		fr.set(instr, in.binop(instr.Op, instr.X.Type(), instr.Y.Type(), fr.get(instr.X), fr.get(instr.Y)))
	case *ssa.Call:
		fn, args := fr.prepareCall(&instr.Call)
		fr.set(instr, in.call(fr, fn, args))
	case *ssa.ChangeInterface:
		fr.set(instr, fr.get(instr.X))
	case *ssa.ChangeType:
		fr.set(instr, fr.get(instr.X))
	case *ssa.Convert:
		fr.set(instr, in.conv(instr.Type(), instr.X.Type(), fr.get(instr.X)))
	case *ssa.MultiConvert:
		fr.set(instr, in.conv(instr.Type(), instr.X.Type(), fr.get(instr.X)))
	case *ssa.SliceToArrayPointer:
		s := fr.get(instr.X).(Slice)
		n := int(mustDeref(instr.Type()).Underlying().(*types.Array).Len())
		if s.Len < n {
			panic(in.runtimeError("cannot convert slice to array pointer: length too short"))
		}
		if s.IsNil() {
			fr.set(instr, Ptr(nil))
		} else {
			// share storage: build an Arr aliasing is not possible with value
			// semantics; unsupported unless read-only use
			panic(unsupported("SliceToArrayPointer"))
		}
	case *ssa.MakeInterface:
		fr.set(instr, Iface{T: instr.X.Type(), V: fr.get(instr.X)})
	case *ssa.Extract:
		fr.set(instr, fr.get(instr.Tuple).(Tuple)[instr.Index])
	case *ssa.Slice:
		fr.set(instr, in.slice(instr, fr.get(instr.X), fr.get(instr.Low), fr.get(instr.High), fr.get(instr.Max)))
	case *ssa.Return:
		switch len(instr.Results) {
		case 0:
		case 1:
			fr.result = fr.get(instr.Results[0])
		default:
			res := make(Tuple, len(instr.Results))
			for i, r := range instr.Results {
				res[i] = fr.get(r)
			}
			fr.result = res
		}
		fr.block = nil
		return kReturn
	case *ssa.RunDefers:
		fr.runDefers()
	case *ssa.Panic:
		panic(targetPanic{fr.get(instr.X)})
	case *ssa.Store:
		in.store(fr.get(instr.Addr), fr.get(instr.Val))
	case *ssa.If:
		c := fr.get(instr.Cond).(*Term)
		succ := 1
		if c.IsConst() {
			if c.c != 0 {
				succ = 0
			}
		} else if in.w.branch(c) {
			succ = 0
		}
		fr.prev, fr.block = fr.block, fr.block.Succs[succ]
		return kJump
	case *ssa.Jump:
		fr.prev, fr.block = fr.block, fr.block.Succs[0]
		return kJump
	case *ssa.Defer:
		fn, args := fr.prepareCall(&instr.Call)
		fr.defers = append(fr.defers, &deferred{fn: fn, args: args})
	case *ssa.Go:
		// sequentialised: run to completion at the spawn point
		fn, args := fr.prepareCall(&instr.Call)
		in.call(fr, fn, args)
	case *ssa.Alloc:
		cell := new(Value)
		*cell = zero(mustDeref(instr.Type()))
		if instr.Heap {
			fr.set(instr, cell)
		} else {
			// locals are re-zeroed when the Alloc executes
			p := fr.env[fr.info.idx[instr]].(Ptr)
			*p = *cell
		}
	case *ssa.MakeSlice:
		l := in.concreteInt(fr.get(instr.Len), 0, 1<<20, "make len")
		c := in.concreteInt(fr.get(instr.Cap), 0, 1<<20, "make cap")
		if l < 0 || c < l {
			panic(in.runtimeError("makeslice: len out of range"))
		}
		et := instr.Type().Underlying().(*types.Slice).Elem()
		fr.set(instr, in.makeSlice(et, l, c))
	case *ssa.MakeMap:
		fr.set(instr, newMap(instr.Type().Underlying().(*types.Map).Key()))
	case *ssa.Range:
		fr.set(instr, in.rangeIter(fr.get(instr.X), instr.X.Type()))
	case *ssa.Next:
		fr.set(instr, fr.get(instr.Iter).(iterator).next(in))
	case *ssa.FieldAddr:
		p := fr.get(instr.X)
		pp, ok := p.(Ptr)
		if !ok {
			panic(unsupported(fmt.Sprintf("FieldAddr through %T", p)))
		}
		if pp == nil {
			panic(in.runtimeError("invalid memory address or nil pointer dereference"))
		}
		fr.set(instr, &(*pp).(Struct)[instr.Field])
	case *ssa.Field:
		fr.set(instr, fr.get(instr.X).(Struct)[instr.Field])
	case *ssa.IndexAddr:
		fr.set(instr, in.indexAddr(fr.get(instr.X), fr.get(instr.Index), instr.Index.Type()))
	case *ssa.Index:
		fr.set(instr, in.index(fr.get(instr.X), fr.get(instr.Index), instr.Index.Type()))
	case *ssa.Lookup:
		fr.set(instr, in.lookup(instr, fr.get(instr.X), fr.get(instr.Index)))
	case *ssa.MapUpdate:
		m := fr.get(instr.Map).(*Map)
		if m == nil {
			panic(targetPanic{Iface{T: in.rtErrType, V: mkStr("assignment to entry in nil map")}})
		}
		in.mapUpdate(m, fr.get(instr.Key), fr.get(instr.Value))
	case *ssa.TypeAssert:
		fr.set(instr, in.typeAssert(instr, fr.get(instr.X).(Iface)))
	case *ssa.MakeClosure:
		env := make([]Value, len(instr.Bindings))
		for i, b := range instr.Bindings {
			env[i] = fr.get(b)
		}
		fr.set(instr, &Closure{Fn: instr.Fn.(*ssa.Function), Env: env})
	default:
		panic(unsupported(fmt.Sprintf("instruction %T", instr)))
	}
	return kNext
}

func (in *Interp) makeSlice(et types.Type, l, c int) Slice {
	a := make([]Value, c)
	z := zero(et)
	if _, scalar := z.(*Term); scalar {
		for i := range a {
			a[i] = z
		}
	} else {
		for i := range a {
			a[i] = zero(et)
		}
	}
	return Slice{A: a, Off: 0, Len: l, Cap: c, nonNil: true}
}

// concreteInt returns the concrete value of an integer term, forking over
// the feasible values in [lo,hi] when it is symbolic.
func (in *Interp) concreteInt(v Value, lo, hi int, what string) int {
	if v == nil {
		return 0
	}
	t := v.(*Term)
	if t.IsConst() {
		return int(t.sval())
	}
	return in.w.concretize(t, lo, hi, what)
}

func (in *Interp) load(p Value) Value {
	switch p := p.(type) {
	case Ptr:
		if p == nil {
			panic(in.runtimeError("invalid memory address or nil pointer dereference"))
		}
		return copyVal(*p)
	case SymPtr:
		return in.symLoad(p)
	}
	panic(unsupported(fmt.Sprintf("load through %T", p)))
}

// assignInPlace stores v (already a private copy) into the cell, keeping the
// identity of the cells of aggregate values: a struct's fields and an array's
// elements have stable addresses in Go, so pointers taken to them before the
// store (FieldAddr/IndexAddr emitted ahead of a delayed composite-literal
// store) must still refer to the stored object afterwards.
func assignInPlace(dst *Value, v Value) {
	switch old := (*dst).(type) {
	case Struct:
		if nv, ok := v.(Struct); ok && len(nv) == len(old) {
			for i := range old {
				assignInPlace(&old[i], nv[i])
			}
			return
		}
	case Arr:
		if nv, ok := v.(Arr); ok && len(nv) == len(old) {
			for i := range old {
				assignInPlace(&old[i], nv[i])
			}
			return
		}
	}
	*dst = v
}

func (in *Interp) store(p Value, v Value) {
	switch p := p.(type) {
	case Ptr:
		if p == nil {
			panic(in.runtimeError("invalid memory address or nil pointer dereference"))
		}
		assignInPlace(p, copyVal(v))
		return
	case SymPtr:
		i := in.w.concretize(p.idx, 0, len(p.base)-1, "store index")
		assignInPlace(&p.base[i], copyVal(v))
		return
	}
	panic(unsupported(fmt.Sprintf("store through %T", p)))
}

// symLoad reads base[idx] for a symbolic in-range idx.
func (in *Interp) symLoad(p SymPtr) Value {
	// a look-up whose index is itself the result of a look-up in a constant
	// table (base64 decode of an encoded character, ...): compose the tables
	if in.tt.tableLoads != nil {
		inner := p.idx
		if inner.op == OZext {
			inner = inner.a
		}
		if tl, ok := in.tt.tableLoads[inner]; ok && len(tl.vals) > 0 {
			comp := make([]Value, len(tl.vals))
			okc, ident := true, true
			for k, v := range tl.vals {
				if v >= uint64(len(p.base)) {
					okc = false
					break
				}
				e, isT := p.base[v].(*Term)
				if !isT || !e.IsConst() {
					okc = false
					break
				}
				comp[k] = e
				if e.w > 64 || e.c != uint64(k) {
					ident = false
				}
			}
			if okc {
				w := comp[0].(*Term).w
				if ident {
					switch {
					case tl.idx.w == w:
						return tl.idx
					case tl.idx.w > w:
						return in.tt.Extract(tl.idx, w-1, 0)
					default:
						return in.tt.Zext(tl.idx, w)
					}
				}
				return in.symLoad(SymPtr{base: comp, idx: in.tt.Zext(tl.idx, 64)})
			}
		}
	}
	// memoise look-ups in constant tables: rebuilding the ite chain allocates a
	// lot even though hash-consing returns the same term
	var mk loadKey
	memo := false
	if len(p.base) <= 256 {
		h := uint64(1469598103934665603)
		okc := true
		for _, e := range p.base {
			t, isT := e.(*Term)
			if !isT || !t.IsConst() || t.w > 64 {
				okc = false
				break
			}
			h = (h ^ t.c ^ uint64(t.w)<<56) * 1099511628211
		}
		if okc {
			mk = loadKey{h: h, n: len(p.base), idx: p.idx}
			memo = true
			if r, ok := in.tt.loadMemo[mk]; ok {
				return r
			}
		}
	}
	v := in.symLoad1(p)
	if memo {
		if r, ok := v.(*Term); ok {
			if in.tt.loadMemo == nil {
				in.tt.loadMemo = map[loadKey]*Term{}
			}
			in.tt.loadMemo[mk] = r
		}
	}
	// remember look-ups in injective constant tables (hex digits, base64
	// alphabets): two such look-ups are equal iff their indexes are
	if r, ok := v.(*Term); ok && !r.IsConst() && len(p.base) <= 256 {
		seen := map[uint64]bool{}
		var sb strings.Builder
		inj := true
		for _, e := range p.base {
			t, ok := e.(*Term)
			if !ok || !t.IsConst() || t.w > 64 || seen[t.c] {
				inj = false
				break
			}
			seen[t.c] = true
			fmt.Fprintf(&sb, "%d,", t.c)
		}
		if inj {
			if in.tt.tableLoads == nil {
				in.tt.tableLoads = map[*Term]tableLoad{}
			}
			if _, dup := in.tt.tableLoads[r]; !dup {
				vals := make([]uint64, len(p.base))
				for i, e := range p.base {
					vals[i] = e.(*Term).c
				}
				in.tt.tableLoads[r] = tableLoad{key: sb.String(), idx: p.idx, vals: vals}
			}
		}
	}
	return v
}

func (in *Interp) symLoad1(p SymPtr) Value {
	n := len(p.base)
	if n == 0 {
		panic("symLoad on empty base")
	}
	allScalar := true
	for _, e := range p.base {
		if _, ok := e.(*Term); !ok {
			allScalar = false
			break
		}
	}
	if !allScalar {
		i := in.w.concretize(p.idx, 0, n-1, "load index")
		return copyVal(p.base[i])
	}
	tt := in.tt
	// index given as an ite tree over constants: map the leaves through the table
	allConst := true
	for _, e := range p.base {
		if !e.(*Term).IsConst() {
			allConst = false
			break
		}
	}
	if allConst {
		budget := 4096
		memo := map[*Term]*Term{}
		if r, ok := mapIteLeaves(tt, p.idx, func(c uint64) *Term {
			if c < uint64(n) {
				return p.base[c].(*Term)
			}
			return nil
		}, &budget, memo); ok {
			return r
		}
	}
	same := func(a, b *Term) bool {
		return a == b || (a.IsConst() && b.IsConst() && a.w == b.w && constEq(a, b))
	}
	type run struct {
		end int
		v   *Term
	}
	var runs []run
	for k := 0; k < n; k++ {
		e := p.base[k].(*Term)
		if k+1 < n && same(e, p.base[k+1].(*Term)) {
			continue
		}
		runs = append(runs, run{k, e})
	}
	res := runs[len(runs)-1].v
	for j := len(runs) - 2; j >= 0; j-- {
		res = tt.Ite(tt.Cmp(OULe, p.idx, mkConst(64, uint64(runs[j].end))), runs[j].v, res)
	}
	return res
}

func (in *Interp) to64(v Value, t types.Type) *Term {
	x := v.(*Term)
	if x.w == 64 {
		return x
	}
	_, signed, _ := intType(t)
	if signed {
		return in.tt.Sext(x, 64)
	}
	return in.tt.Zext(x, 64)
}

// boundsCheck ensures 0 <= idx < n, forking into the run-time panic.
func (in *Interp) boundsCheck(idx *Term, n int) {
	if idx.IsConst() {
		if idx.sval() < 0 || idx.sval() >= int64(n) {
			panic(in.runtimeError(fmt.Sprintf("index out of range [%d] with length %d", idx.sval(), n)))
		}
		return
	}
	ok := in.tt.Cmp(OULt, idx, mkConst(64, uint64(n)))
	if !in.w.branchT(ok) {
		panic(in.runtimeError(fmt.Sprintf("index out of range [sym] with length %d", n)))
	}
}

func (in *Interp) indexAddr(x Value, idxV Value, idxT types.Type) Value {
	idx := in.to64(idxV, idxT)
	var base []Value
	switch x := x.(type) {
	case Slice:
		base = x.A[x.Off : x.Off+x.Len]
	case Ptr:
		if x == nil {
			panic(in.runtimeError("invalid memory address or nil pointer dereference"))
		}
		base = (*x).(Arr)
	default:
		panic(unsupported(fmt.Sprintf("IndexAddr on %T", x)))
	}
	in.boundsCheck(idx, len(base))
	if idx.IsConst() {
		return &base[idx.c]
	}
	return SymPtr{base: base, idx: idx}
}

func (in *Interp) index(x Value, idxV Value, idxT types.Type) Value {
	idx := in.to64(idxV, idxT)
	switch x := x.(type) {
	case Arr:
		in.boundsCheck(idx, len(x))
		if idx.IsConst() {
			return copyVal(x[idx.c])
		}
		return in.symLoad(SymPtr{base: x, idx: idx})
	case Str:
		in.boundsCheck(idx, x.Len())
		if idx.IsConst() {
			return x.At(int(idx.c))
		}
		if x.opaque {
			panic(unsupported("index into opaque string"))
		}
		ts := x.Terms()
		base := make([]Value, len(ts))
		for i, t := range ts {
			base[i] = t
		}
		return in.symLoad(SymPtr{base: base, idx: idx})
	}
	panic(unsupported(fmt.Sprintf("Index on %T", x)))
}

func (in *Interp) slice(instr *ssa.Slice, x, lo, hi, max Value) Value {
	cint := func(v Value, def int, lim int) int {
		if v == nil {
			return def
		}
		return in.concreteInt(v, 0, lim, "slice bound")
	}
	switch x := x.(type) {
	case Str:
		n := x.Len()
		l := cint(lo, 0, n)
		h := cint(hi, n, n)
		if l < 0 || h > n || l > h {
			panic(in.runtimeError(fmt.Sprintf("slice bounds out of range [%d:%d] with length %d", l, h, n)))
		}
		if x.opaque && (l != 0 || h != n) && h > x.exact {
			panic(unsupported("slice of opaque string"))
		}
		return x.Slice(l, h)
	case Slice:
		l := cint(lo, 0, x.Cap)
		h := cint(hi, x.Len, x.Cap)
		m := cint(max, x.Cap, x.Cap)
		if l < 0 || h > m || l > h || m > x.Cap {
			panic(in.runtimeError(fmt.Sprintf("slice bounds out of range [%d:%d:%d] with capacity %d", l, h, m, x.Cap)))
		}
		if x.IsNil() {
			return Slice{}
		}
		return Slice{A: x.A, Off: x.Off + l, Len: h - l, Cap: m - l, nonNil: true}
	case Ptr:
		if x == nil {
			panic(in.runtimeError("invalid memory address or nil pointer dereference"))
		}
		a := (*x).(Arr)
		n := len(a)
		l := cint(lo, 0, n)
		h := cint(hi, n, n)
		m := cint(max, n, n)
		if l < 0 || h > m || l > h || m > n {
			panic(in.runtimeError("slice bounds out of range"))
		}
		return Slice{A: []Value(a), Off: l, Len: h - l, Cap: m - l, nonNil: true}
	}
	panic(unsupported(fmt.Sprintf("Slice on %T", x)))
}

func (in *Interp) typeAssert(instr *ssa.TypeAssert, x Iface) Value {
	ok := false
	var v Value
	if itf, isI := instr.AssertedType.Underlying().(*types.Interface); isI {
		if x.T != nil && (itf.NumMethods() == 0 || types.Implements(x.T, itf)) {
			ok = true
			v = x
		}
	} else {
		if x.T != nil && types.Identical(x.T, instr.AssertedType) {
			ok = true
			v = x.V
		}
	}
	if instr.CommaOk {
		if !ok {
			v = zero(instr.AssertedType)
		}
		return Tuple{v, mkBool(ok)}
	}
	if !ok {
		msg := fmt.Sprintf("interface conversion: interface is %v, not %v", x.T, instr.AssertedType)
		panic(targetPanic{Iface{T: in.rtErrType, V: mkStr(msg)}})
	}
	return v
}

// posOf renders the source position of an instruction for diagnostics.
func (in *Interp) posOf(p token.Pos) string {
	if p == token.NoPos {
		return "?"
	}
	return in.prog.Fset.Position(p).String()
}

// mapIteLeaves rewrites f(t) for a term t that is an ite tree with constant
// leaves (possibly under zero-extension) into an ite tree over f's values.
func mapIteLeaves(tt *TermTable, t *Term, f func(c uint64) *Term, budget *int, memo map[*Term]*Term) (*Term, bool) {
	if r, ok := memo[t]; ok {
		return r, r != nil
	}
	*budget--
	if *budget < 0 {
		return nil, false
	}
	var res *Term
	switch t.op {
	case OConst:
		if t.cb == nil {
			res = f(t.c)
		}
	case OZext:
		r, ok := mapIteLeaves(tt, t.a, f, budget, memo)
		if ok {
			res = r
		}
	case OIte:
		a, ok1 := mapIteLeaves(tt, t.b, f, budget, memo)
		if ok1 {
			b, ok2 := mapIteLeaves(tt, t.d, f, budget, memo)
			if ok2 {
				res = tt.Ite(t.a, a, b)
			}
		}
	}
	memo[t] = res
	return res, res != nil
}
