package main

func cmdSelftest(args []string) int { return 0 }
