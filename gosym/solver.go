package main

// One long-lived SMT solver process per worker, driven over a pipe with
// globally defined terms and guarded assertions (check-sat-assuming).

import (
	"bufio"
	"fmt"
	"io"
	"math/big"
	"os"
	"os/exec"
	"strings"
	"time"
)

// solverLogic: QF_BV lets z3 use its incremental SAT core (an order of
// magnitude faster here than the default); harnesses that use uninterpreted
// functions run under QF_UFBV. Any "(error" line makes a query inconclusive.
var solverLogic = "QF_BV"

type SatResult int

const (
	Unsat SatResult = iota
	Sat
	Unknown
)

func (r SatResult) String() string { return [...]string{"unsat", "sat", "unknown"}[r] }

type Solver struct {
	kind      string // z3 | z3-new | cvc5
	cmd       *exec.Cmd
	in        io.WriteCloser
	out       *bufio.Reader
	tt        *TermTable
	emitted   []bool          // by term id
	guards    map[int32]int   // term id -> guard number
	declFuns  map[string]bool // UF declarations
	nGuards   int
	Queries   int
	Time      time.Duration
	Errors    int
	timeoutMs int
	log       io.Writer
	sinceBoot int
	axioms    func(s *Solver, app *Term) // called when an OApp term is first emitted
	lastCheck string                     // the last check-sat-assuming command
	dirty     bool                       // commands were sent since the last check (model invalid)
}

func newSolver(kind string, tt *TermTable, timeoutMs int) (*Solver, error) {
	s := &Solver{kind: kind, tt: tt, timeoutMs: timeoutMs}
	if p := os.Getenv("GOSYM_SMTLOG"); p != "" {
		f, _ := os.OpenFile(fmt.Sprintf("%s.%d", p, time.Now().UnixNano()), os.O_CREATE|os.O_WRONLY|os.O_TRUNC, 0644)
		s.log = f
	}
	if err := s.start(); err != nil {
		return nil, err
	}
	return s, nil
}

func (s *Solver) start() error {
	var cmd *exec.Cmd
	switch s.kind {
	case "z3", "z3-new":
		cmd = exec.Command(s.kind, "-in", "-smt2")
	case "cvc5":
		cmd = exec.Command("cvc5", "--incremental", "--lang=smt2", "--produce-models", fmt.Sprintf("--tlimit-per=%d", s.timeoutMs))
	default:
		return fmt.Errorf("unknown solver %q", s.kind)
	}
	in, err := cmd.StdinPipe()
	if err != nil {
		return err
	}
	out, err := cmd.StdoutPipe()
	if err != nil {
		return err
	}
	cmd.Stderr = cmd.Stdout
	if err := cmd.Start(); err != nil {
		return err
	}
	s.cmd, s.in, s.out = cmd, in, bufio.NewReaderSize(out, 1<<16)
	s.emitted = make([]bool, 1024)
	s.guards = make(map[int32]int)
	s.declFuns = make(map[string]bool)
	s.nGuards = 0
	s.sinceBoot = 0
	if s.kind != "cvc5" {
		s.send(fmt.Sprintf("(set-option :timeout %d)", s.timeoutMs))
		s.send("(set-option :model.completion true)")
		s.send("(set-logic " + solverLogic + ")")
	} else {
		s.send("(set-logic ALL)")
	}
	return nil
}

func (s *Solver) Close() {
	if s.cmd != nil {
		s.in.Close()
		s.cmd.Process.Kill()
		s.cmd.Wait()
		s.cmd = nil
	}
}

func (s *Solver) restart() {
	s.Close()
	if err := s.start(); err != nil {
		panic(err)
	}
}

// sendQuery sends a command that does not invalidate the current model.
func (s *Solver) sendQuery(line string) {
	d := s.dirty
	s.send(line)
	s.dirty = d
}

func (s *Solver) send(line string) {
	s.dirty = true
	if s.log != nil {
		fmt.Fprintln(s.log, line)
	}
	io.WriteString(s.in, line)
	io.WriteString(s.in, "\n")
}

func (s *Solver) readLine() string {
	l, err := s.out.ReadString('\n')
	if err != nil {
		return "(error \"solver died: " + err.Error() + "\")"
	}
	return strings.TrimSpace(l)
}

// readSexp reads a balanced s-expression (possibly multi-line).
func (s *Solver) readSexp() string {
	var sb strings.Builder
	depth := 0
	started := false
	for {
		l, err := s.out.ReadString('\n')
		if err != nil {
			return "(error \"solver died\")"
		}
		inQuote := false
		for _, ch := range l {
			switch {
			case ch == '"':
				inQuote = !inQuote
			case inQuote:
			case ch == '(':
				depth++
				started = true
			case ch == ')':
				depth--
			}
		}
		sb.WriteString(l)
		if started && depth <= 0 {
			break
		}
		if !started && strings.TrimSpace(l) != "" {
			break
		}
	}
	return sb.String()
}

func (s *Solver) ensureEmitted(t *Term) {
	if t.op == OConst {
		return
	}
	for int(t.id) >= len(s.emitted) {
		s.emitted = append(s.emitted, make([]bool, len(s.emitted))...)
	}
	if s.emitted[t.id] {
		return
	}
	// iterative post-order to avoid deep recursion
	type fr struct {
		t  *Term
		ci int
		ch []*Term
	}
	stack := []fr{{t: t, ch: t.children()}}
	for len(stack) > 0 {
		top := &stack[len(stack)-1]
		if top.ci < len(top.ch) {
			c := top.ch[top.ci]
			top.ci++
			if c.op == OConst {
				continue
			}
			for int(c.id) >= len(s.emitted) {
				s.emitted = append(s.emitted, make([]bool, len(s.emitted))...)
			}
			if !s.emitted[c.id] {
				stack = append(stack, fr{t: c, ch: c.children()})
			}
			continue
		}
		x := top.t
		stack = stack[:len(stack)-1]
		if s.emitted[x.id] {
			continue
		}
		s.emitted[x.id] = true
		switch x.op {
		case OVar:
			s.send(fmt.Sprintf("(declare-const %s %s)", x.name, sortStr(x.w)))
		case OApp:
			if !s.declFuns[x.name] {
				s.declFuns[x.name] = true
				var sb strings.Builder
				for _, a := range x.args {
					sb.WriteString(sortStr(a.w) + " ")
				}
				s.send(fmt.Sprintf("(declare-fun %s (%s) %s)", x.name, sb.String(), sortStr(x.w)))
			}
			s.define(x)
			if s.axioms != nil {
				s.axioms(s, x)
			}
		default:
			s.define(x)
		}
	}
}

// define introduces the name t<id> for a term. Definitions are sent as a
// fresh constant with a defining equation rather than as a define-fun macro:
// z3 expands nested macros at every use, which is prohibitively slow for the
// deep ite chains produced by table look-ups.
func (s *Solver) define(x *Term) {
	if useDefineFun {
		s.send(fmt.Sprintf("(define-fun t%d () %s %s)", x.id, sortStr(x.w), body(x)))
		return
	}
	s.send(fmt.Sprintf("(declare-const t%d %s)", x.id, sortStr(x.w)))
	s.send(fmt.Sprintf("(assert (= t%d %s))", x.id, body(x)))
}

var useDefineFun = os.Getenv("GOSYM_DEFINEFUN") != ""

// AssertGlobal asserts a universally valid fact (e.g. a UF axiom instance).
func (s *Solver) AssertGlobal(t *Term) {
	if t.op == OConst {
		return
	}
	s.ensureEmitted(t)
	s.send(fmt.Sprintf("(assert %s)", ref(t)))
}

func (s *Solver) guard(t *Term) string {
	if g, ok := s.guards[t.id]; ok {
		return fmt.Sprintf("g%d", g)
	}
	s.ensureEmitted(t)
	s.nGuards++
	g := s.nGuards
	s.guards[t.id] = g
	s.send(fmt.Sprintf("(declare-const g%d Bool)", g))
	s.send(fmt.Sprintf("(assert (= g%d %s))", g, ref(t)))
	return fmt.Sprintf("g%d", g)
}

// Check decides satisfiability of the conjunction of pc and extra.
func (s *Solver) Check(pc []*Term, extra ...*Term) SatResult {
	start := time.Now()
	defer func() { s.Time += time.Since(start) }()
	s.Queries++
	s.sinceBoot++
	var lits []string
	add := func(t *Term) bool {
		if t.op == OConst {
			return t.c != 0
		}
		lits = append(lits, s.guard(t))
		return true
	}
	for _, t := range pc {
		if !add(t) {
			return Unsat
		}
	}
	for _, t := range extra {
		if !add(t) {
			return Unsat
		}
	}
	if len(lits) == 0 {
		s.lastCheck = "(check-sat)"
		return s.runCheck()
	}
	s.lastCheck = "(check-sat-assuming (" + strings.Join(lits, " ") + "))"
	return s.runCheck()
}

func (s *Solver) runCheck() SatResult {
	s.send(s.lastCheck)
	s.send("(echo \"@sync\")")
	s.dirty = false
	res := Unknown
	got := false
	errSeen := false
	for {
		l := s.readLine()
		switch {
		case l == "@sync" || l == "\"@sync\"":
			if errSeen || !got {
				return Unknown
			}
			return res
		case l == "sat":
			res, got = Sat, true
		case l == "unsat":
			res, got = Unsat, true
		case l == "unknown" || l == "timeout":
			res, got = Unknown, true
		case strings.HasPrefix(l, "(error"):
			s.Errors++
			errSeen = true
			fmt.Fprintln(os.Stderr, "solver error:", l)
			if strings.Contains(l, "solver died") {
				s.restart()
				return Unknown
			}
		case l == "":
		default:
			fmt.Fprintln(os.Stderr, "solver says:", l)
			s.Errors++
			errSeen = true
		}
	}
}

// Model returns values for the given variable terms after a Sat answer.
func (s *Solver) Model(vars []*Term) map[string]*big.Int {
	res := make(map[string]*big.Int)
	if len(vars) == 0 {
		return res
	}
	for _, v := range vars {
		s.ensureEmitted(v)
	}
	if s.dirty && s.lastCheck != "" {
		if s.runCheck() != Sat {
			return res
		}
	}
	const chunk = 200
	for i := 0; i < len(vars); i += chunk {
		j := i + chunk
		if j > len(vars) {
			j = len(vars)
		}
		var sb strings.Builder
		sb.WriteString("(get-value (")
		for _, v := range vars[i:j] {
			s.ensureEmitted(v)
			sb.WriteString(ref(v) + " ")
		}
		sb.WriteString("))")
		s.sendQuery(sb.String())
		txt := s.readSexp()
		parseModel(txt, res)
	}
	return res
}

// Value evaluates arbitrary terms in the current model.
func (s *Solver) Value(t *Term) *big.Int {
	if t.op == OConst {
		return t.bigVal()
	}
	s.ensureEmitted(t)
	if s.dirty && s.lastCheck != "" {
		if s.runCheck() != Sat {
			return nil
		}
	}
	s.sendQuery("(get-value (" + ref(t) + "))")
	txt := s.readSexp()
	m := map[string]*big.Int{}
	parseModel(txt, m)
	if m[ref(t)] == nil {
		fmt.Fprintf(os.Stderr, "solver: no value for %s in response %q\n", ref(t), txt)
	}
	return m[ref(t)]
}

func parseModel(txt string, res map[string]*big.Int) {
	// ((name #x..) (name #b..) (name true) ...)
	toks := strings.FieldsFunc(txt, func(r rune) bool { return r == '(' || r == ')' || r == ' ' || r == '\n' || r == '\t' })
	for i := 0; i+1 < len(toks); i += 2 {
		name, val := toks[i], toks[i+1]
		v := new(big.Int)
		switch {
		case strings.HasPrefix(val, "#x"):
			v.SetString(val[2:], 16)
		case strings.HasPrefix(val, "#b"):
			v.SetString(val[2:], 2)
		case val == "true":
			v.SetInt64(1)
		case val == "false":
			v.SetInt64(0)
		case val == "_": // (_ bv5 8)
			if i+3 < len(toks) && strings.HasPrefix(toks[i+2], "bv") {
				v.SetString(toks[i+2][2:], 10)
				i += 2
			}
		default:
			continue
		}
		res[name] = v
	}
}
