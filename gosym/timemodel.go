package main

// An abstract model of time.Time for the pseudo-version code (C18): a time is
// its UTC calendar fields (symbolic) plus nanoseconds. Only the operations
// the code under test uses are modelled: UTC, Format/Parse with the
// pseudo-version layout, Truncate/Round to a second, comparisons.

import (
	"fmt"

	"golang.org/x/tools/go/ssa"
)

const tsLayout = "20060102150405"

type symTime struct {
	f     [6]*Term // year, month, day, hour, minute, second as 16-bit values
	nanos *Term    // 32-bit
	digs  []*Term  // the 14 digit bytes the fields were read from, if any
}

func (in *Interp) times() *[]*symTime {
	p, _ := in.pathState["times"].(*[]*symTime)
	if p == nil {
		c16 := func(v uint64) *Term { return mkConst(16, v) }
		zero := &symTime{f: [6]*Term{c16(1), c16(1), c16(1), c16(0), c16(0), c16(0)}, nanos: mkConst(32, 0)}
		l := []*symTime{zero}
		p = &l
		in.pathState["times"] = p
	}
	return p
}

// fields returns the numeric calendar fields, computing them from the digits on demand.
func (in *Interp) fields(t *symTime) [6]*Term {
	if t.f[0] == nil {
		tt := in.tt
		s := strFromTerms(t.digs)
		t.f[0] = tt.Bin(OAdd, tt.Bin(OMul, in.num2(s.At(0), s.At(1)), mkConst(16, 100)), in.num2(s.At(2), s.At(3)))
		for k := 1; k < 6; k++ {
			t.f[k] = in.num2(s.At(2+2*k), s.At(3+2*k))
		}
	}
	return t.f
}

func stampKey(ts []*Term) string {
	k := ""
	for _, t := range ts {
		if t.IsConst() {
			k += fmt.Sprintf("c%d,", t.c)
		} else {
			k += fmt.Sprintf("t%d,", t.id)
		}
	}
	return k
}

// digitsValid: validity of a 14-digit stamp stated on the digits themselves,
// restricted to days 01-28 (no month-length or leap-year reasoning needed).
func (in *Interp) digitsValid28(s Str) *Term {
	tt := in.tt
	c := func(v byte) *Term { return mkConst(8, uint64(v)) }
	eq := func(i int, v byte) *Term { return tt.Eq(s.At(i), c(v)) }
	rng := func(i int, lo, hi byte) *Term { return tt.And(tt.Cmp(OULe, c(lo), s.At(i)), tt.Cmp(OULe, s.At(i), c(hi))) }
	ok := tTrue
	for i := 0; i < 14; i++ {
		ok = tt.And(ok, rng(i, '0', '9'))
	}
	// year >= 0001
	ok = tt.And(ok, tt.Not(tt.And(tt.And(eq(0, '0'), eq(1, '0')), tt.And(eq(2, '0'), eq(3, '0')))))
	// month 01..12
	ok = tt.And(ok, tt.Or(tt.And(eq(4, '0'), rng(5, '1', '9')), tt.And(eq(4, '1'), rng(5, '0', '2'))))
	// day 01..28
	ok = tt.And(ok, tt.Or(tt.Or(tt.And(eq(6, '0'), rng(7, '1', '9')), eq(6, '1')), tt.And(eq(6, '2'), rng(7, '0', '8'))))
	// hour 00..23
	ok = tt.And(ok, tt.Or(rng(8, '0', '1'), tt.And(eq(8, '2'), rng(9, '0', '3'))))
	ok = tt.And(ok, rng(10, '0', '5'))
	ok = tt.And(ok, rng(12, '0', '5'))
	return ok
}

func (in *Interp) timeOf(v Value) *symTime {
	st := v.(Struct)
	h := st[1].(*Term)
	if !h.IsConst() {
		panic(unsupported("symbolic time handle"))
	}
	l := *in.times()
	if st[0].(*Term).IsConst() && st[0].(*Term).c == 0 && int(h.c) < len(l) {
		return l[h.c]
	}
	panic(unsupported("time.Time value not created by the time model"))
}

func (in *Interp) newTime(t *symTime) Value {
	p := in.times()
	*p = append(*p, t)
	return Struct{mkConst(64, 0), mkConst(64, uint64(len(*p)-1)), Ptr(nil)}
}

func (in *Interp) num2(a, b *Term) *Term {
	tt := in.tt
	d := func(x *Term) *Term { return tt.Zext(tt.Bin(OSub, x, mkConst(8, '0')), 16) }
	return tt.Bin(OAdd, tt.Bin(OMul, d(a), mkConst(16, 10)), d(b))
}

func (in *Interp) daysIn(y, m *Term) *Term {
	tt := in.tt
	c := func(v uint64) *Term { return mkConst(16, v) }
	rem := func(x *Term, k uint64) *Term { return tt.Bin(OURem, x, c(k)) }
	leap := tt.Or(tt.And(tt.Eq(rem(y, 4), c(0)), tt.Not(tt.Eq(rem(y, 100), c(0)))), tt.Eq(rem(y, 400), c(0)))
	is := func(k uint64) *Term { return tt.Eq(m, c(k)) }
	thirty := tt.Or(tt.Or(is(4), is(6)), tt.Or(is(9), is(11)))
	return tt.Ite(is(2), tt.Ite(leap, c(29), c(28)), tt.Ite(thirty, c(30), c(31)))
}

// fieldsValid: the calendar fields denote a real instant.
func (in *Interp) fieldsValid(t *symTime, minYear uint64) *Term {
	in.fields(t)
	tt := in.tt
	c := func(v uint64) *Term { return mkConst(16, v) }
	le := func(a, b *Term) *Term { return tt.Cmp(OULe, a, b) }
	res := tt.And(le(c(minYear), t.f[0]), le(t.f[0], c(9999)))
	res = tt.And(res, tt.And(le(c(1), t.f[1]), le(t.f[1], c(12))))
	res = tt.And(res, tt.And(le(c(1), t.f[2]), le(t.f[2], in.daysIn(t.f[0], t.f[1]))))
	res = tt.And(res, le(t.f[3], c(23)))
	res = tt.And(res, le(t.f[4], c(59)))
	res = tt.And(res, le(t.f[5], c(59)))
	return res
}

func (in *Interp) isDigit(b *Term) *Term {
	tt := in.tt
	return tt.And(tt.Cmp(OULe, mkConst(8, '0'), b), tt.Cmp(OULe, b, mkConst(8, '9')))
}

// parseStamp builds the time denoted by 14 digit bytes and its validity.
func (in *Interp) parseStamp(s Str, minYear uint64) (*symTime, *Term) {
	tt := in.tt
	ok := tTrue
	for i := 0; i < 14; i++ {
		ok = tt.And(ok, in.isDigit(s.At(i)))
	}
	t := &symTime{nanos: mkConst(32, 0), digs: s.Terms()}
	known, _ := in.pathState["validStamps"].(map[string]bool)
	if known != nil && known[stampKey(t.digs)] {
		return t, tTrue
	}
	return t, tt.And(ok, in.fieldsValid(t, minYear))
}

func (in *Interp) digits(v *Term, n int) []*Term {
	tt := in.tt
	out := make([]*Term, n)
	for i := n - 1; i >= 0; i-- {
		d := tt.Bin(OURem, v, mkConst(16, 10))
		out[i] = tt.Bin(OAdd, tt.Extract(d, 7, 0), mkConst(8, '0'))
		v = tt.Bin(OUDiv, v, mkConst(16, 10))
	}
	return out
}

func (in *Interp) formatStamp(t *symTime) Str {
	if t.digs != nil {
		return strFromTerms(t.digs)
	}
	in.fields(t)
	var out []*Term
	yd := 4
	big := in.tt.Cmp(OULt, mkConst(16, 9999), t.f[0])
	if big.IsConst() {
		if big.c != 0 {
			yd = 5
		}
	} else if in.w.branchT(big) {
		yd = 5
	}
	out = append(out, in.digits(t.f[0], yd)...)
	for k := 1; k < 6; k++ {
		out = append(out, in.digits(t.f[k], 2)...)
	}
	return strFromTerms(out)
}

// addSecond returns t advanced by one second (calendar carry included).
func (in *Interp) addSecond(t *symTime) *symTime {
	in.fields(t)
	tt := in.tt
	c := func(v uint64) *Term { return mkConst(16, v) }
	inc := func(x *Term) *Term { return tt.Bin(OAdd, x, c(1)) }
	cs := tt.Eq(t.f[5], c(59))
	cm := tt.And(cs, tt.Eq(t.f[4], c(59)))
	ch := tt.And(cm, tt.Eq(t.f[3], c(23)))
	cd := tt.And(ch, tt.Eq(t.f[2], in.daysIn(t.f[0], t.f[1])))
	cmo := tt.And(cd, tt.Eq(t.f[1], c(12)))
	r := &symTime{nanos: mkConst(32, 0)}
	r.f[5] = tt.Ite(cs, c(0), inc(t.f[5]))
	r.f[4] = tt.Ite(cs, tt.Ite(cm, c(0), inc(t.f[4])), t.f[4])
	r.f[3] = tt.Ite(cm, tt.Ite(ch, c(0), inc(t.f[3])), t.f[3])
	r.f[2] = tt.Ite(ch, tt.Ite(cd, c(1), inc(t.f[2])), t.f[2])
	r.f[1] = tt.Ite(cd, tt.Ite(cmo, c(1), inc(t.f[1])), t.f[1])
	r.f[0] = tt.Ite(cmo, inc(t.f[0]), t.f[0])
	return r
}

func (in *Interp) timeLess(a, b *symTime, orEq bool) *Term {
	in.fields(a)
	in.fields(b)
	tt := in.tt
	res := tt.Cmp(OULt, a.nanos, b.nanos)
	if orEq {
		res = tt.Cmp(OULe, a.nanos, b.nanos)
	}
	for k := 5; k >= 0; k-- {
		res = tt.Ite(tt.Eq(a.f[k], b.f[k]), res, tt.Cmp(OULt, a.f[k], b.f[k]))
	}
	return res
}

func (in *Interp) timeEq(a, b *symTime) *Term {
	tt := in.tt
	res := tt.Eq(a.nanos, b.nanos)
	if a.digs != nil && b.digs != nil {
		return tt.And(res, in.strEq(strFromTerms(a.digs), strFromTerms(b.digs)))
	}
	in.fields(a)
	in.fields(b)
	for k := 0; k < 6; k++ {
		res = tt.And(res, tt.Eq(a.f[k], b.f[k]))
	}
	return res
}

func init() {
	harnessAPI["vTime"] = func(in *Interp, c *frame, fn *ssa.Function, a []Value) Value {
		name := argStr(a[0])
		s := Str{b: in.w.drawBytes(name+".stamp", "string", 14)}
		nanos := in.w.drawScalar(name+".nanos", "int", 64)
		in.w.drawChoice(name+".zone", 5)
		t := &symTime{nanos: mkConst(32, 0), digs: s.Terms()}
		tt := in.tt
		in.w.assume(in.digitsValid28(s), "vTime: valid instant in years 0001-9999, days 01-28")
		known, _ := in.pathState["validStamps"].(map[string]bool)
		if known == nil {
			known = map[string]bool{}
			in.pathState["validStamps"] = known
		}
		known[stampKey(t.digs)] = true
		in.w.assume(tt.Cmp(OULt, nanos, mkConst(64, 1000000000)), "vTime: nanoseconds")
		t.nanos = tt.Extract(nanos, 31, 0)
		return in.newTime(t)
	}
	reg("(time.Time).UTC", func(in *Interp, c *frame, fn *ssa.Function, a []Value) Value { return a[0] })
	reg("(time.Time).Format", func(in *Interp, c *frame, fn *ssa.Function, a []Value) Value {
		if l, ok := a[1].(Str); !ok || !l.IsConcrete() || l.Concrete() != tsLayout {
			panic(unsupported("time.Format with a layout other than " + tsLayout))
		}
		return in.formatStamp(in.timeOf(a[0]))
	})
	reg("(time.Time).Truncate", func(in *Interp, c *frame, fn *ssa.Function, a []Value) Value {
		if d := a[1].(*Term); !d.IsConst() || d.c != 1000000000 {
			panic(unsupported("time.Truncate to other than one second"))
		}
		t := in.timeOf(a[0])
		return in.newTime(&symTime{f: t.f, nanos: mkConst(32, 0), digs: t.digs})
	})
	reg("(time.Time).Round", func(in *Interp, c *frame, fn *ssa.Function, a []Value) Value {
		if d := a[1].(*Term); !d.IsConst() || d.c != 1000000000 {
			panic(unsupported("time.Round to other than one second"))
		}
		t := in.timeOf(a[0])
		tt := in.tt
		up := tt.Cmp(OULe, mkConst(32, 500000000), t.nanos)
		if !in.w.branchT(up) {
			return in.newTime(&symTime{f: t.f, nanos: mkConst(32, 0), digs: t.digs})
		}
		if t.digs != nil {
			// digit-level increment with forks on the carry chain (no division)
			d := append([]*Term(nil), t.digs...)
			c8 := func(v byte) *Term { return mkConst(8, uint64(v)) }
			inc := func(i int) { d[i] = tt.Bin(OAdd, d[i], c8(1)) }
			is := func(i int, v byte) bool { return in.w.branchT(tt.Eq(d[i], c8(v))) }
			done := false
			for _, pair := range [][2]int{{12, 13}, {10, 11}} { // seconds, minutes
				hi, lo := pair[0], pair[1]
				if !is(lo, '9') {
					inc(lo)
					done = true
					break
				}
				d[lo] = c8('0')
				if !is(hi, '5') {
					inc(hi)
					done = true
					break
				}
				d[hi] = c8('0')
			}
			if !done {
				// hours 00..23
				if is(8, '2') && is(9, '3') {
					// day carry: fall back to the numeric calendar
					goto numeric
				}
				if !is(9, '9') {
					inc(9)
				} else {
					d[9] = c8('0')
					inc(8)
				}
			}
			return in.newTime(&symTime{nanos: mkConst(32, 0), digs: d})
		}
	numeric:
		in.fields(t)
		nx := in.addSecond(t)
		return in.newTime(nx)
	})
	reg("(time.Time).Equal", func(in *Interp, c *frame, fn *ssa.Function, a []Value) Value {
		return in.timeEq(in.timeOf(a[0]), in.timeOf(a[1]))
	})
	reg("(time.Time).Before", func(in *Interp, c *frame, fn *ssa.Function, a []Value) Value {
		return in.timeLess(in.timeOf(a[0]), in.timeOf(a[1]), false)
	})
	reg("(time.Time).After", func(in *Interp, c *frame, fn *ssa.Function, a []Value) Value {
		return in.timeLess(in.timeOf(a[1]), in.timeOf(a[0]), false)
	})
	reg("(time.Time).IsZero", func(in *Interp, c *frame, fn *ssa.Function, a []Value) Value {
		return in.timeEq(in.timeOf(a[0]), (*in.times())[0])
	})
	reg("time.Parse", func(in *Interp, c *frame, fn *ssa.Function, a []Value) Value {
		if l, ok := a[0].(Str); !ok || !l.IsConcrete() || l.Concrete() != tsLayout {
			panic(unsupported("time.Parse with a layout other than " + tsLayout))
		}
		s := a[1].(Str)
		zero := Struct{mkConst(64, 0), mkConst(64, 0), Ptr(nil)}
		mkErr := func() Value {
			return Tuple{zero, in.newError(c, mkStr(fmt.Sprintf("parsing time: cannot parse as %q", tsLayout)))}
		}
		if s.opaque || s.Len() != 14 {
			if s.opaque {
				panic(unsupported("time.Parse of opaque string"))
			}
			return mkErr()
		}
		t, ok := in.parseStamp(s, 0)
		if ok.IsConst() {
			if ok.c == 0 {
				return mkErr()
			}
		} else if !in.w.branchT(ok) {
			return mkErr()
		}
		return Tuple{in.newTime(t), Iface{}}
	})
}
