package main

// Depth-first exploration of feasible paths by re-execution, with work
// splitting by decision prefix over several workers.

import (
	"fmt"
	"math/big"
	"os"
	"sort"
	"strings"
	"sync"
	"sync/atomic"
	"time"

	"golang.org/x/tools/go/ssa"
)

type decision struct {
	kind byte // 'b' branch, 'c' choice, 'a' assume/assert marker, 'v' concretize
	alts []int
	cur  int
	val  int64 // for 'v': the candidate value tested
	impl bool  // the single alternative is implied by the path condition
}

type Draw struct {
	Name  string
	Kind  string  // byte, bool, int, choice, string, bytes, hash
	Terms []*Term // symbolic parts
	N     int64   // concrete value for choice
}

type DrawVal struct {
	Name string `json:"name"`
	Kind string `json:"kind"`
	N    int64  `json:"n"`
	B    []byte `json:"b,omitempty"`
	U    uint64 `json:"u,omitempty"`
}

type Violation struct {
	Harness string    `json:"harness"`
	Assert  string    `json:"assert"`
	Msg     string    `json:"msg,omitempty"`
	Inputs  []DrawVal `json:"inputs"`
	Known   string    `json:"known,omitempty"`
}

type Inconclusive struct {
	Harness string
	Kind    string
	Msg     string
}

type Stats struct {
	Paths        int64
	PathsOK      int64
	AssumeKilled int64
	Infeasible   int64
	Unsupported  int64
	Budget       int64
	Engine       int64
	Obligations  int64 // assertion queries (symbolic)
	Discharged   int64
	TrivialOK    int64 // assertions that folded to true
	UnknownAsrt  int64
	UnknownFeas  int64
	Queries      int64
	SolverTime   time.Duration
	Steps        int64
	MaxDec       int
}

type Shared struct {
	mu         sync.Mutex
	jobs       [][]decision
	idle       int32
	active     int32
	nworkers   int
	cond       *sync.Cond
	stop       int32
	violations []Violation
	violCount  map[string]int
	inconcl    []Inconclusive
	inconclCnt map[string]int
	reach      map[string]int64
	asserts    map[string]int64 // assert id -> times checked
	samples    [][]DrawVal
	stats      Stats
	funcs      map[string]bool
	intrs      map[string]bool
	harness    string
	maxViol    int
	deadline   time.Time
	timedOut   bool
	stoppedEarly bool
	done       bool
	assumeKill map[string]int64
}

type Worker struct {
	id      int
	sh      *Shared
	tt      *TermTable
	in      *Interp
	solver  *Solver
	dec     []decision
	pos     int
	pc      []*Term
	draws   []Draw
	drawSeq int
	st      Stats
	reach   map[string]int64
	asserts map[string]int64
	harness string
	nPaths  int
	sampled int
	knownOn map[string]bool
	dom       map[*Term]byteSet
	entangled map[*Term]bool
	facts     map[*Term]bool
	usedUF    bool
	condCache map[*Term]*condInfo
	domHits   int64
}

func (w *Worker) addPC(c *Term) {
	if c.IsConst() {
		if c.c == 0 {
			panic(pathEnd{"infeasible", "constant false constraint"})
		}
		return
	}
	// split conjunctions so that single-byte conjuncts feed the byte domains
	if c.op == OAnd {
		w.addPC(c.a)
		w.addPC(c.b)
		return
	}
	if c.op == ONot && c.a.op == OOr {
		w.addPC(w.tt.Not(c.a.a))
		w.addPC(w.tt.Not(c.a.b))
		return
	}
	w.pc = append(w.pc, c)
	w.addFact(c, true, 0)
	if c.svState == 2 {
		w.domAdd(c)
	} else {
		for _, v := range c.Vars() {
			w.entangled[v] = true
		}
	}
}

func (w *Worker) check(extra ...*Term) SatResult {
	r := w.solver.Check(w.pc, extra...)
	return r
}

// branch decides a symbolic condition, forking if both sides are feasible.
func (w *Worker) branch(c *Term) bool {
	if c.IsConst() {
		return c.c != 0
	}
	tt := w.tt
	if w.pos < len(w.dec) {
		d := &w.dec[w.pos]
		w.pos++
		v := d.alts[d.cur]
		cc := c
		if v != 1 {
			cc = tt.Not(c)
		}
		if d.impl {
			w.addImplied(cc)
		} else {
			w.addPC(cc)
		}
		return v == 1
	}
	var alts []int
	if val, known := w.factOf(c); known {
		w.domHits++
		if val {
			alts = []int{1}
		} else {
			alts = []int{0}
		}
	} else if known, val := w.domDecide(c); known {
		w.domHits++
		if val {
			alts = []int{1}
		} else {
			alts = []int{0}
		}
	} else if ci := w.condInfo(c); ci != nil && !w.entangled[ci.v] {
		// the byte is constrained only by single-variable constraints, so
		// its tracked domain is exact and both sides are feasible
		w.domHits++
		alts = []int{1, 0}
	} else if rt := w.check(c); rt == Unsat {
		alts = []int{0}
	} else {
		if rt == Unknown {
			w.st.UnknownFeas++
		}
		rf := w.check(tt.Not(c))
		if rf == Unknown {
			w.st.UnknownFeas++
		}
		if rf == Unsat {
			alts = []int{1}
		} else {
			alts = []int{1, 0}
		}
	}
	impl := len(alts) == 1
	w.dec = append(w.dec, decision{kind: 'b', alts: alts, impl: impl})
	w.pos++
	if len(w.dec) > w.st.MaxDec {
		w.st.MaxDec = len(w.dec)
	}
	cc := c
	if alts[0] != 1 {
		cc = tt.Not(c)
	}
	if impl {
		w.addImplied(cc)
	} else {
		w.addPC(cc)
	}
	return alts[0] == 1
}

// addImplied records a constraint that the path condition already implies:
// it feeds the fact and byte-domain caches but is not sent to the solver.
func (w *Worker) addImplied(c *Term) {
	if c.IsConst() {
		return
	}
	if c.op == OAnd {
		w.addImplied(c.a)
		w.addImplied(c.b)
		return
	}
	if c.op == ONot && c.a.op == OOr {
		w.addImplied(w.tt.Not(c.a.a))
		w.addImplied(w.tt.Not(c.a.b))
		return
	}
	w.addFact(c, true, 0)
	if c.svState == 2 {
		w.domAdd(c)
	}
}

func (w *Worker) branchT(c *Term) bool { return w.branch(c) }

// choose forks over n alternatives without a constraint.
func (w *Worker) choose(n int, what string) int {
	if n <= 0 {
		panic(pathEnd{"assume", "empty choice " + what})
	}
	if w.pos < len(w.dec) {
		d := &w.dec[w.pos]
		w.pos++
		return d.alts[d.cur]
	}
	alts := make([]int, n)
	for i := range alts {
		alts[i] = i
	}
	w.dec = append(w.dec, decision{kind: 'c', alts: alts})
	w.pos++
	return 0
}

// concretize forks over the feasible values of t (expected in [lo,hi]).
func (w *Worker) concretize(t *Term, lo, hi int, what string) int {
	if t.IsConst() {
		return int(t.sval())
	}
	tt := w.tt
	for iter := 0; ; iter++ {
		if iter > 4096 {
			panic(pathEnd{"budget", "concretize: too many values for " + what})
		}
		var cand int64
		if w.pos < len(w.dec) {
			cand = w.dec[w.pos].val
		} else {
			// ask the solver for a feasible value
			r := w.check()
			if r != Sat {
				if r == Unsat {
					panic(pathEnd{"infeasible", "concretize " + what})
				}
				panic(pathEnd{"unknown", "concretize: solver unknown for " + what})
			}
			v := w.solver.Value(t)
			if v == nil {
				panic(pathEnd{"unknown", "concretize: no model value for " + what})
			}
			cand = mkBigConst(t.w, v).sval()
			if t.w > 64 {
				panic(unsupported("concretize wide term"))
			}
		}
		c := tt.Eq(t, mkConst(t.w, uint64(cand)))
		var taken bool
		if w.pos < len(w.dec) {
			d := &w.dec[w.pos]
			w.pos++
			taken = d.alts[d.cur] == 1
			if taken {
				w.addPC(c)
			} else {
				w.addPC(tt.Not(c))
			}
		} else {
			// c is feasible by construction; is the negation?
			rf := w.check(tt.Not(c))
			alts := []int{1, 0}
			if rf == Unsat {
				alts = []int{1}
			} else if rf == Unknown {
				w.st.UnknownFeas++
			}
			w.dec = append(w.dec, decision{kind: 'v', alts: alts, val: cand})
			w.pos++
			w.addPC(c)
			taken = true
		}
		if taken {
			if cand < int64(lo) || cand > int64(hi) {
				// value outside the expected range: let the caller's checks handle it
			}
			return int(cand)
		}
	}
}

func (w *Worker) assume(c *Term, what string) {
	if c.IsConst() {
		if c.c == 0 {
			w.sh.noteAssumeKill(what)
			panic(pathEnd{"assume", what})
		}
		return
	}
	if w.pos < len(w.dec) {
		w.pos++
		w.addPC(c)
		return
	}
	r := w.check(c)
	if r == Unsat {
		w.sh.noteAssumeKill(what)
		panic(pathEnd{"assume", what})
	}
	if r == Unknown {
		w.st.UnknownFeas++
	}
	w.dec = append(w.dec, decision{kind: 'a', alts: []int{1}})
	w.pos++
	w.addPC(c)
}

func (sh *Shared) noteAssumeKill(what string) {
	sh.mu.Lock()
	sh.assumeKill[what]++
	sh.mu.Unlock()
}

func (w *Worker) assert(id string, c *Term, msg string) {
	w.asserts[id]++
	if c.IsConst() && c.c != 0 {
		w.st.TrivialOK++
		return
	}
	if w.pos < len(w.dec) {
		// already decided on an earlier run of this prefix
		w.pos++
		w.addPC(c)
		return
	}
	tt := w.tt
	w.st.Obligations++
	var r SatResult
	if !c.IsConst() {
		r = w.check(tt.Not(c))
	} else {
		// folded to false on this path: a model of the path condition is the counterexample
		r = w.check()
		if r == Unsat {
			// the solver refuted the path itself: the obligation is discharged
			w.st.Discharged++
			panic(pathEnd{"infeasible", "assert on infeasible path"})
		}
	}
	switch r {
	case Unsat:
		w.st.Discharged++
	case Unknown:
		w.st.UnknownAsrt++
		w.sh.addInconclusive(Inconclusive{w.harness, "unknown", "assertion " + id + ": solver returned unknown"})
	case Sat:
		if c.IsConst() {
			w.recordViolation(id, msg, nil)
		} else {
			w.recordViolation(id, msg, tt.Not(c))
		}
	}
	// continue under the assumption that the assertion holds
	if c.IsConst() {
		panic(pathEnd{"violation", id})
	}
	if r == Sat {
		if w.check(c) == Unsat {
			panic(pathEnd{"violation", id})
		}
	}
	w.dec = append(w.dec, decision{kind: 'a', alts: []int{1}})
	w.pos++
	w.addPC(c)
}

// modelInputs reads the values of all draws from the solver's current model.
func (w *Worker) modelInputs() []DrawVal {
	var vars []*Term
	for _, d := range w.draws {
		for _, t := range d.Terms {
			if !t.IsConst() {
				vars = append(vars, t)
			}
		}
	}
	m := w.solver.Model(vars)
	val := func(t *Term) *big.Int {
		if t.IsConst() {
			return t.bigVal()
		}
		if v, ok := m[ref(t)]; ok {
			return v
		}
		return big.NewInt(0)
	}
	var out []DrawVal
	for _, d := range w.draws {
		dv := DrawVal{Name: d.Name, Kind: d.Kind, N: d.N}
		switch d.Kind {
		case "choice":
		case "string", "bytes":
			dv.B = make([]byte, len(d.Terms))
			for i, t := range d.Terms {
				dv.B[i] = byte(val(t).Uint64())
			}
		case "hash":
			b := val(d.Terms[0]).Bytes()
			// term is little-endian by byte index: byte i = bits 8i..8i+7
			dv.B = make([]byte, 32)
			for i := 0; i < len(b); i++ {
				dv.B[i] = b[len(b)-1-i]
			}
		default:
			v := val(d.Terms[0])
			dv.U = v.Uint64()
			dv.N = mkBigConst(d.Terms[0].w, v).sval()
			if d.Terms[0].w == 0 {
				dv.N = int64(v.Uint64())
			}
		}
		out = append(out, dv)
	}
	return out
}

func (w *Worker) recordViolation(id, msg string, notC *Term) {
	// the last check (pc ∧ ¬c) was Sat: read the model. With hash
	// abstractions, first look for a model without accidental equalities
	// between free hashes and hash applications that depend on them (such
	// cycles cannot be realised with the real hash function).
	if w.usedUF {
		extra := w.acyclicityHints()
		if len(extra) > 0 {
			if notC != nil {
				extra = append(extra, notC)
			}
			if w.check(extra...) != Sat {
				if notC != nil {
					w.check(notC)
				} else {
					w.check()
				}
			}
		}
	}
	inputs := w.modelInputs()
	if w.usedUF {
		inputs = w.liftHashes(inputs)
	}
	known := ""
	for k := range w.knownOn {
		known = k
	}
	sh := w.sh
	sh.mu.Lock()
	defer sh.mu.Unlock()
	key := id + "|" + known
	sh.violCount[key]++
	if sh.violCount[key] <= 3 {
		sh.violations = append(sh.violations, Violation{Harness: w.harness, Assert: id, Msg: msg, Inputs: inputs, Known: known})
	}
	// plenty of counterexamples for an unlisted violation: stop exploring
	if known == "" && sh.violCount[key] >= 25 {
		sh.stoppedEarly = true
		atomic.StoreInt32(&sh.stop, 1)
	}
}

func (sh *Shared) addInconclusive(i Inconclusive) {
	sh.mu.Lock()
	defer sh.mu.Unlock()
	key := i.Kind + "|" + firstLine(i.Msg)
	sh.inconclCnt[key]++
	if sh.inconclCnt[key] <= 1 && len(sh.inconcl) < 50 {
		sh.inconcl = append(sh.inconcl, i)
	}
}

func firstLine(s string) string {
	if i := strings.IndexByte(s, '\n'); i >= 0 {
		return s[:i]
	}
	return s
}

// ---- draws ----

func sanitize(s string) string {
	var sb strings.Builder
	for _, r := range s {
		if r >= 'a' && r <= 'z' || r >= 'A' && r <= 'Z' || r >= '0' && r <= '9' || r == '_' {
			sb.WriteRune(r)
		} else {
			sb.WriteByte('_')
		}
	}
	return sb.String()
}

func (w *Worker) fresh(name string, width int) *Term {
	w.drawSeq++
	return w.tt.Var(fmt.Sprintf("i%d_%s", w.drawSeq, sanitize(name)), width)
}

func (w *Worker) drawScalar(name, kind string, width int) *Term {
	t := w.fresh(name, width)
	w.draws = append(w.draws, Draw{Name: name, Kind: kind, Terms: []*Term{t}})
	return t
}

func (w *Worker) drawBytes(name, kind string, n int) []*Term {
	ts := make([]*Term, n)
	w.drawSeq++
	for i := range ts {
		ts[i] = w.tt.Var(fmt.Sprintf("i%d_%s_%d", w.drawSeq, sanitize(name), i), 8)
	}
	w.draws = append(w.draws, Draw{Name: name, Kind: kind, Terms: ts})
	return ts
}

func (w *Worker) drawChoice(name string, n int) int {
	c := w.choose(n, name)
	w.draws = append(w.draws, Draw{Name: name, Kind: "choice", N: int64(c)})
	return c
}

// ---- path execution ----

func (w *Worker) runPath(fn *ssa.Function) (kind string, msg string) {
	w.pos = 0
	w.pc = w.pc[:0]
	w.draws = w.draws[:0]
	w.drawSeq = 0
	w.knownOn = map[string]bool{}
	w.dom = map[*Term]byteSet{}
	w.entangled = map[*Term]bool{}
	w.facts = map[*Term]bool{}
	if w.condCache == nil {
		w.condCache = map[*Term]*condInfo{}
	}
	w.in.resetPath()
	kind = "ok"
	defer func() {
		if r := recover(); r != nil {
			switch r := r.(type) {
			case pathEnd:
				kind, msg = r.kind, r.msg
			case unsupportedErr:
				kind, msg = "unsupported", r.msg
			case targetPanic:
				kind, msg = "panic", w.in.panicString(r.v)
			default:
				kind, msg = "engine", fmt.Sprintf("%v\n%s", r, trimStack(stackBytes()))
			}
		}
	}()
	w.in.call(nil, fn, nil)
	return
}

func (w *Worker) explore(fn *ssa.Function, prefix []decision) {
	w.dec = append(w.dec[:0], prefix...)
	for {
		if atomic.LoadInt32(&w.sh.stop) != 0 {
			return
		}
		if !w.sh.deadline.IsZero() && time.Now().After(w.sh.deadline) {
			w.sh.mu.Lock()
			w.sh.timedOut = true
			w.sh.mu.Unlock()
			atomic.StoreInt32(&w.sh.stop, 1)
			return
		}
		kind, msg := w.runPath(fn)
		w.st.Paths++
		w.st.Steps += w.in.steps
		w.nPaths++
		switch kind {
		case "ok":
			w.st.PathsOK++
			if w.sampled < 3 && len(w.draws) > 0 {
				w.sampled++
				if w.check() == Sat {
					s := w.modelInputs()
					w.sh.mu.Lock()
					if len(w.sh.samples) < 12 {
						w.sh.samples = append(w.sh.samples, s)
					}
					w.sh.mu.Unlock()
				}
			}
		case "assume":
			w.st.AssumeKilled++
		case "infeasible":
			w.st.Infeasible++
		case "violation":
		case "panic":
			// an escaping panic of the code under test is a violation of
			// the implicit "no panic" assertion
			if w.check() != Unsat {
				w.recordViolation("no-panic", msg, nil)
			}
		case "unsupported":
			w.st.Unsupported++
			w.sh.addInconclusive(Inconclusive{w.harness, "unsupported", msg})
		case "budget":
			w.st.Budget++
			w.sh.addInconclusive(Inconclusive{w.harness, "unwound-out", msg})
		case "unknown":
			w.st.UnknownAsrt++
			w.sh.addInconclusive(Inconclusive{w.harness, "unknown", msg})
		default:
			w.st.Engine++
			w.sh.addInconclusive(Inconclusive{w.harness, "engine", msg})
		}
		// periodic solver restart to bound memory
		if w.solver.sinceBoot > restartEvery || w.tt.nextID > maxTerms {
			// also when the hash-consed term table has grown large: paths whose
			// assertions all fold never reach the query limit but keep every term
			w.resetSolver()
		}
		// donate work if others are idle
		if atomic.LoadInt32(&w.sh.idle) > 0 {
			w.donate()
		}
		// backtrack
		for len(w.dec) > 0 && w.dec[len(w.dec)-1].cur+1 >= len(w.dec[len(w.dec)-1].alts) {
			w.dec = w.dec[:len(w.dec)-1]
		}
		if len(w.dec) == 0 {
			return
		}
		w.dec[len(w.dec)-1].cur++
	}
}

func prefixExhausted(dec []decision, n int) bool {
	// forced prefix decisions have a single alternative, so reaching here
	// with len(dec) <= n means nothing is left
	return true
}

func (w *Worker) resetSolver() {
	w.solver.Close()
	q, t, e := w.solver.Queries, w.solver.Time, w.solver.Errors
	w.tt = newTermTable()
	w.condCache = map[*Term]*condInfo{}
	w.in.tt = w.tt
	w.in.consts = make(map[*ssa.Const]Value)
	s, err := newSolver(w.solver.kind, w.tt, w.solver.timeoutMs)
	if err != nil {
		panic(err)
	}
	s.Queries, s.Time, s.Errors = q, t, e
	s.axioms = w.solver.axioms
	w.solver = s
}

func (w *Worker) donate() {
	for i := range w.dec {
		d := &w.dec[i]
		if d.cur+1 < len(d.alts) {
			var jobs [][]decision
			for _, a := range d.alts[d.cur+1:] {
				p := make([]decision, i+1)
				for j := 0; j < i; j++ {
					p[j] = decision{kind: w.dec[j].kind, alts: []int{w.dec[j].alts[w.dec[j].cur]}, val: w.dec[j].val, impl: w.dec[j].impl}
				}
				p[i] = decision{kind: d.kind, alts: []int{a}, val: d.val}
				jobs = append(jobs, p)
			}
			d.alts = d.alts[:d.cur+1]
			w.sh.mu.Lock()
			w.sh.jobs = append(w.sh.jobs, jobs...)
			w.sh.mu.Unlock()
			w.sh.cond.Broadcast()
			return
		}
	}
}

func stackBytes() []byte {
	buf := make([]byte, 1<<14)
	n := runtimeStack(buf)
	return buf[:n]
}

// RunHarness explores one harness function with n workers.
func RunHarness(prog *ssa.Program, fn *ssa.Function, name string, nworkers int, solverKind string, timeoutMs int, deadline time.Time, opts map[string]bool) *Shared {
	sh := &Shared{nworkers: nworkers, harness: name, violCount: map[string]int{}, inconclCnt: map[string]int{},
		reach: map[string]int64{}, asserts: map[string]int64{}, funcs: map[string]bool{}, intrs: map[string]bool{},
		deadline: deadline, assumeKill: map[string]int64{}}
	sh.cond = sync.NewCond(&sh.mu)
	sh.jobs = [][]decision{nil}
	var wg sync.WaitGroup
	for i := 0; i < nworkers; i++ {
		wg.Add(1)
		go func(id int) {
			defer wg.Done()
			tt := newTermTable()
			in := newInterp(prog, tt)
			in.trace = opts["trace"]
			in.shaRealConst = opts["sharealconst"]
			sv, err := newSolver(solverKind, tt, timeoutMs)
			if err != nil {
				fmt.Fprintln(os.Stderr, "solver:", err)
				return
			}
			sv.axioms = uf_axioms
			w := &Worker{id: id, sh: sh, tt: tt, in: in, solver: sv, reach: map[string]int64{}, asserts: map[string]int64{}, harness: name}
			in.w = w
			defer func() { w.solver.Close() }()
			for {
				sh.mu.Lock()
				for len(sh.jobs) == 0 && !sh.done {
					n := atomic.AddInt32(&sh.idle, 1)
					if int(n) == sh.nworkers || atomic.LoadInt32(&sh.stop) != 0 {
						sh.done = true
						sh.cond.Broadcast()
						break
					}
					sh.cond.Wait()
					atomic.AddInt32(&sh.idle, -1)
				}
				if sh.done {
					sh.mu.Unlock()
					w.merge()
					return
				}
				job := sh.jobs[len(sh.jobs)-1]
				sh.jobs = sh.jobs[:len(sh.jobs)-1]
				sh.mu.Unlock()
				w.explore(fn, job)
				if atomic.LoadInt32(&sh.stop) != 0 {
					sh.mu.Lock()
					sh.jobs = nil
					sh.mu.Unlock()
				}
			}
		}(i)
	}
	wg.Wait()
	return sh
}

func (w *Worker) merge() {
	sh := w.sh
	sh.mu.Lock()
	defer sh.mu.Unlock()
	s := &sh.stats
	s.Paths += w.st.Paths
	s.PathsOK += w.st.PathsOK
	s.AssumeKilled += w.st.AssumeKilled
	s.Infeasible += w.st.Infeasible
	s.Unsupported += w.st.Unsupported
	s.Budget += w.st.Budget
	s.Engine += w.st.Engine
	s.Obligations += w.st.Obligations
	s.Discharged += w.st.Discharged
	s.TrivialOK += w.st.TrivialOK
	s.UnknownAsrt += w.st.UnknownAsrt
	s.UnknownFeas += w.st.UnknownFeas
	s.Queries += int64(w.solver.Queries)
	s.SolverTime += w.solver.Time
	s.Steps += w.st.Steps
	if w.st.MaxDec > s.MaxDec {
		s.MaxDec = w.st.MaxDec
	}
	for k, v := range w.reach {
		sh.reach[k] += v
	}
	for k, v := range w.asserts {
		sh.asserts[k] += v
	}
	for k := range w.in.funcsSeen {
		sh.funcs[k] = true
	}
	for k := range w.in.intrSeen {
		sh.intrs[k] = true
	}
}

func sortedKeys(m map[string]bool) []string {
	var r []string
	for k := range m {
		r = append(r, k)
	}
	sort.Strings(r)
	return r
}

// addFact records that term c has truth value v on this path, decomposing
// conjunctions (and negated disjunctions).
func (w *Worker) addFact(c *Term, v bool, depth int) {
	if c.IsConst() || depth > 6 {
		return
	}
	w.facts[c] = v
	switch c.op {
	case ONot:
		w.addFact(c.a, !v, depth+1)
	case OAnd:
		if v {
			w.addFact(c.a, true, depth+1)
			w.addFact(c.b, true, depth+1)
		}
	case OOr:
		if !v {
			w.addFact(c.a, false, depth+1)
			w.addFact(c.b, false, depth+1)
		}
	}
}

// factOf evaluates c from recorded facts (three-valued, structural).
func (w *Worker) factOf(c *Term) (val bool, known bool) {
	return w.factEval(c, 0)
}

func (w *Worker) factEval(c *Term, depth int) (bool, bool) {
	if c.IsConst() {
		return c.c != 0, true
	}
	if v, ok := w.facts[c]; ok {
		return v, true
	}
	if depth > 6 {
		return false, false
	}
	switch c.op {
	case ONot:
		v, ok := w.factEval(c.a, depth+1)
		return !v, ok
	case OAnd:
		a, oka := w.factEval(c.a, depth+1)
		b, okb := w.factEval(c.b, depth+1)
		if (oka && !a) || (okb && !b) {
			return false, true
		}
		if oka && okb {
			return true, true
		}
	case OOr:
		a, oka := w.factEval(c.a, depth+1)
		b, okb := w.factEval(c.b, depth+1)
		if (oka && a) || (okb && b) {
			return true, true
		}
		if oka && okb {
			return false, true
		}
	}
	return false, false
}

const maxTerms = 1500000

var restartEvery = func() int {
	if v := os.Getenv("GOSYM_RESTART"); v != "" {
		n := 0
		fmt.Sscanf(v, "%d", &n)
		if n > 0 {
			return n
		}
	}
	return 20000
}()
