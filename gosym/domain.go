package main

// A cheap exact domain for single-byte conditions: for every 8-bit input
// variable the worker tracks the set of values allowed by the single-variable
// constraints of the path condition. A branch condition that depends on one
// byte only is decided by enumeration of 256 values when the tracked set
// settles it; otherwise the solver is asked. The sets over-approximate the
// feasible values (multi-variable constraints are ignored), so an answer
// "implied true/false" is sound, and "both possible" is never concluded here.

type byteSet [4]uint64

func (s *byteSet) has(i int) bool { return s[i>>6]&(1<<uint(i&63)) != 0 }
func (s *byteSet) set(i int)      { s[i>>6] |= 1 << uint(i&63) }
func (s *byteSet) and(o *byteSet) byteSet {
	return byteSet{s[0] & o[0], s[1] & o[1], s[2] & o[2], s[3] & o[3]}
}
func (s *byteSet) andNot(o *byteSet) byteSet {
	return byteSet{s[0] &^ o[0], s[1] &^ o[1], s[2] &^ o[2], s[3] &^ o[3]}
}
func (s *byteSet) empty() bool { return s[0]|s[1]|s[2]|s[3] == 0 }

var fullSet = byteSet{^uint64(0), ^uint64(0), ^uint64(0), ^uint64(0)}

type vec [256]uint64

// evalVec evaluates a single-variable term for all 256 values of the variable.
func evalVec(t *Term, memo map[*Term]*vec) *vec {
	if r, ok := memo[t]; ok {
		return r
	}
	r := new(vec)
	switch t.op {
	case OConst:
		for i := range r {
			r[i] = t.c
		}
	case OVar:
		for i := range r {
			r[i] = uint64(i)
		}
	case ONot:
		a := evalVec(t.a, memo)
		for i := range r {
			r[i] = a[i] ^ 1
		}
	case OAnd, OOr:
		a, b := evalVec(t.a, memo), evalVec(t.b, memo)
		for i := range r {
			if t.op == OAnd {
				r[i] = a[i] & b[i]
			} else {
				r[i] = a[i] | b[i]
			}
		}
	case OEq:
		a, b := evalVec(t.a, memo), evalVec(t.b, memo)
		for i := range r {
			if a[i] == b[i] {
				r[i] = 1
			}
		}
	case OIte:
		c, a, b := evalVec(t.a, memo), evalVec(t.b, memo), evalVec(t.d, memo)
		for i := range r {
			if c[i] != 0 {
				r[i] = a[i]
			} else {
				r[i] = b[i]
			}
		}
	case OULt, OULe, OSLt, OSLe:
		a, b := evalVec(t.a, memo), evalVec(t.b, memo)
		w := t.a.w
		sx := func(v uint64) int64 {
			if w >= 64 {
				return int64(v)
			}
			sh := uint(64 - w)
			return int64(v<<sh) >> sh
		}
		for i := range r {
			var ok bool
			switch t.op {
			case OULt:
				ok = a[i] < b[i]
			case OULe:
				ok = a[i] <= b[i]
			case OSLt:
				ok = sx(a[i]) < sx(b[i])
			case OSLe:
				ok = sx(a[i]) <= sx(b[i])
			}
			if ok {
				r[i] = 1
			}
		}
	case OZext:
		a := evalVec(t.a, memo)
		*r = *a
	case OSext:
		a := evalVec(t.a, memo)
		aw := t.a.w
		for i := range r {
			sh := uint(64 - aw)
			r[i] = uint64(int64(a[i]<<sh)>>sh) & mask(t.w)
		}
	case OExtract:
		a := evalVec(t.a, memo)
		for i := range r {
			r[i] = (a[i] >> uint(t.lo)) & mask(t.w)
		}
	case OConcat:
		a, b := evalVec(t.a, memo), evalVec(t.b, memo)
		for i := range r {
			r[i] = (a[i]<<uint(t.b.w) | b[i]) & mask(t.w)
		}
	default:
		a, b := evalVec(t.a, memo), evalVec(t.b, memo)
		for i := range r {
			v, _ := foldBin(t.op, t.w, a[i], b[i])
			r[i] = v
		}
	}
	memo[t] = r
	return r
}

type condInfo struct {
	v   *Term
	set byteSet
}

func (w *Worker) condInfo(c *Term) *condInfo {
	if c.svState != 2 || c.w != 0 {
		return nil
	}
	if ci, ok := w.condCache[c]; ok {
		return ci
	}
	memo := map[*Term]*vec{}
	r := evalVec(c, memo)
	ci := &condInfo{v: c.sv}
	for i := 0; i < 256; i++ {
		if r[i] != 0 {
			ci.set.set(i)
		}
	}
	w.condCache[c] = ci
	return ci
}

// domDecide reports whether the tracked byte domains settle condition c.
func (w *Worker) domDecide(c *Term) (known bool, val bool) {
	ci := w.condInfo(c)
	if ci == nil {
		return false, false
	}
	d, ok := w.dom[ci.v]
	if !ok {
		d = fullSet
	}
	in := d.and(&ci.set)
	if in.empty() {
		return true, false
	}
	out := d.andNot(&ci.set)
	if out.empty() {
		return true, true
	}
	return false, false
}

func (w *Worker) domAdd(c *Term) {
	ci := w.condInfo(c)
	if ci == nil {
		return
	}
	d, ok := w.dom[ci.v]
	if !ok {
		d = fullSet
	}
	w.dom[ci.v] = d.and(&ci.set)
}
