package main

import (
	"fmt"
	"go/types"
	"strings"

	"golang.org/x/tools/go/ssa"
)

// Value is a run-time value of the symbolic interpreter:
//
//	*Term            integers, bools (concrete or symbolic)
//	Str              strings: concrete length, possibly symbolic bytes
//	Struct, Arr      aggregates with value semantics
//	*Value (Ptr)     pointers to cells; SymPtr: element pointer with symbolic index
//	Slice            slice header over a backing []Value
//	*Map             maps (insertion ordered)
//	Iface            interface values
//	Tuple            multiple results
//	*ssa.Function, *Closure, *ssa.Builtin, *Native   callables
//	Float            float64 constants (opaque)
type Value interface{}

type Ptr = *Value

type Struct []Value
type Arr []Value
type Tuple []Value

type Float struct{ f float64 }

// Str is a string of concrete length. If b == nil the string is the concrete
// Go string s; otherwise it has len(b) bytes, each an 8-bit term.
type Str struct {
	s      string
	b      []*Term
	opaque bool // produced by formatting the engine does not model exactly
	exact  int  // opaque strings: number of leading bytes of s that are exact
}

func mkStr(s string) Str { return Str{s: s} }

func (s Str) Len() int {
	if s.b != nil {
		return len(s.b)
	}
	return len(s.s)
}

func (s Str) At(i int) *Term {
	if s.b != nil {
		return s.b[i]
	}
	return mkConst(8, uint64(s.s[i]))
}

func (s Str) IsConcrete() bool {
	if s.opaque {
		return false
	}
	if s.b == nil {
		return true
	}
	for _, t := range s.b {
		if !t.IsConst() {
			return false
		}
	}
	return true
}

func (s Str) Concrete() string {
	if s.b == nil {
		return s.s
	}
	bs := make([]byte, len(s.b))
	for i, t := range s.b {
		bs[i] = byte(t.c)
	}
	return string(bs)
}

func strFromTerms(b []*Term) Str {
	all := true
	for _, t := range b {
		if !t.IsConst() {
			all = false
			break
		}
	}
	if all {
		bs := make([]byte, len(b))
		for i, t := range b {
			bs[i] = byte(t.c)
		}
		return Str{s: string(bs)}
	}
	if b == nil {
		b = []*Term{}
	}
	return Str{b: b}
}

func (s Str) Slice(lo, hi int) Str {
	if s.b == nil {
		if s.opaque && hi <= s.exact {
			return Str{s: s.s[lo:hi]}
		}
		return Str{s: s.s[lo:hi], opaque: s.opaque}
	}
	return strFromTerms(s.b[lo:hi:hi])
}

func (s Str) Terms() []*Term {
	if s.b != nil {
		return s.b
	}
	r := make([]*Term, len(s.s))
	for i := 0; i < len(s.s); i++ {
		r[i] = mkConst(8, uint64(s.s[i]))
	}
	return r
}

func strConcat(a, b Str) Str {
	if a.opaque || b.opaque {
		ex := 0
		switch {
		case a.opaque:
			ex = a.exact
		case a.b == nil:
			ex = len(a.s) + b.exact
		}
		return Str{s: a.String() + b.String(), opaque: true, exact: ex}
	}
	if a.b == nil && b.b == nil {
		return Str{s: a.s + b.s}
	}
	if a.Len() == 0 {
		return b
	}
	if b.Len() == 0 {
		return a
	}
	r := make([]*Term, 0, a.Len()+b.Len())
	r = append(r, a.Terms()...)
	r = append(r, b.Terms()...)
	return Str{b: r}
}

func (s Str) String() string {
	if s.b == nil {
		return s.s
	}
	var sb strings.Builder
	for _, t := range s.b {
		if t.IsConst() {
			sb.WriteByte(byte(t.c))
		} else {
			sb.WriteString("¿")
		}
	}
	return sb.String()
}

// Slice header. A is the whole backing array (len(A) == its capacity from
// index 0); the slice covers A[Off:Off+Len] with capacity Cap.
type Slice struct {
	A             []Value
	Off, Len, Cap int
	nonNil        bool // distinguishes empty non-nil slices
}

func (s Slice) IsNil() bool { return s.A == nil && !s.nonNil }

// SymPtr is &base[idx] with a symbolic index known to be in range.
type SymPtr struct {
	base []Value
	idx  *Term // 64-bit
}

type Iface struct {
	T types.Type // dynamic type; nil for the nil interface
	V Value
}

type Closure struct {
	Fn  *ssa.Function
	Env []Value
}

// Native is an engine-implemented function value.
type Native struct {
	name string
	f    func(in *Interp, args []Value) Value
}

type Map struct {
	keyT  types.Type
	keys  []Value
	vals  []Value
	index map[string]int // concrete key -> position
	sym   bool           // some key is symbolic
}

func newMap(keyT types.Type) *Map {
	return &Map{keyT: keyT, index: make(map[string]int)}
}

// concreteKey returns a canonical encoding of a fully concrete comparable value.
func concreteKey(v Value) (string, bool) {
	switch v := v.(type) {
	case *Term:
		if !v.IsConst() {
			return "", false
		}
		if v.cb != nil {
			return "B" + v.cb.Text(16), true
		}
		return fmt.Sprintf("i%d:%d", v.w, v.c), true
	case Str:
		if !v.IsConcrete() {
			return "", false
		}
		return "s" + fmt.Sprint(v.Len()) + ":" + v.Concrete(), true
	case Struct:
		var sb strings.Builder
		sb.WriteString("{")
		for _, f := range v {
			k, ok := concreteKey(f)
			if !ok {
				return "", false
			}
			sb.WriteString(k)
			sb.WriteString(";")
		}
		sb.WriteString("}")
		return sb.String(), true
	case Arr:
		var sb strings.Builder
		sb.WriteString("[")
		for _, f := range v {
			k, ok := concreteKey(f)
			if !ok {
				return "", false
			}
			sb.WriteString(k)
			sb.WriteString(";")
		}
		sb.WriteString("]")
		return sb.String(), true
	case Ptr:
		return fmt.Sprintf("p%p", v), true
	case Iface:
		if v.T == nil {
			return "nil", true
		}
		k, ok := concreteKey(v.V)
		if !ok {
			return "", false
		}
		return "I" + v.T.String() + "/" + k, true
	case *Map:
		return fmt.Sprintf("m%p", v), true
	case Float:
		return fmt.Sprintf("f%v", v.f), true
	}
	return "", false
}

// ---- zero values ----

func basicWidth(b *types.Basic) (w int, signed bool) {
	switch b.Kind() {
	case types.Bool, types.UntypedBool:
		return 0, false
	case types.Int8:
		return 8, true
	case types.Int16:
		return 16, true
	case types.Int32, types.UntypedRune:
		return 32, true
	case types.Int64, types.Int, types.UntypedInt:
		return 64, true
	case types.Uint8:
		return 8, false
	case types.Uint16:
		return 16, false
	case types.Uint32:
		return 32, false
	case types.Uint64, types.Uint, types.Uintptr:
		return 64, false
	}
	return -1, false
}

func intType(t types.Type) (w int, signed bool, ok bool) {
	b, isB := t.Underlying().(*types.Basic)
	if !isB {
		return 0, false, false
	}
	w, signed = basicWidth(b)
	if w <= 0 {
		return 0, false, false
	}
	return w, signed, true
}

func zero(t types.Type) Value {
	switch u := t.Underlying().(type) {
	case *types.Basic:
		switch {
		case u.Kind() == types.String || u.Kind() == types.UntypedString:
			return Str{}
		case u.Kind() == types.UnsafePointer:
			return Ptr(nil)
		case u.Info()&types.IsFloat != 0:
			return Float{0}
		case u.Kind() == types.UntypedNil:
			return nil
		}
		w, _ := basicWidth(u)
		if w < 0 {
			panic(unsupported("zero of basic type " + u.String()))
		}
		return mkConst(w, 0)
	case *types.Pointer:
		return Ptr(nil)
	case *types.Struct:
		s := make(Struct, u.NumFields())
		for i := range s {
			s[i] = zero(u.Field(i).Type())
		}
		return s
	case *types.Array:
		n := int(u.Len())
		a := make(Arr, n)
		if n > 0 {
			if _, isScalar := zero(u.Elem()).(*Term); isScalar {
				z := zero(u.Elem())
				for i := range a {
					a[i] = z
				}
			} else {
				for i := range a {
					a[i] = zero(u.Elem())
				}
			}
		}
		return a
	case *types.Slice:
		return Slice{}
	case *types.Map:
		return (*Map)(nil)
	case *types.Interface:
		return Iface{}
	case *types.Signature:
		return (*Closure)(nil)
	case *types.Chan:
		return nil
	case *types.Tuple:
		if u.Len() == 0 {
			return nil
		}
		tu := make(Tuple, u.Len())
		for i := range tu {
			tu[i] = zero(u.At(i).Type())
		}
		return tu
	}
	panic(unsupported("zero of type " + t.String()))
}

// copyVal makes a deep copy of aggregates (value semantics).
func copyVal(v Value) Value {
	switch v := v.(type) {
	case Struct:
		c := make(Struct, len(v))
		for i, f := range v {
			c[i] = copyVal(f)
		}
		return c
	case Arr:
		c := make(Arr, len(v))
		for i, f := range v {
			c[i] = copyVal(f)
		}
		return c
	}
	return v
}

type unsupportedErr struct{ msg string }

func unsupported(msg string) unsupportedErr { return unsupportedErr{msg} }
