package main

// Abstraction of SHA-256 (and of Ed25519 in the harnesses) by uninterpreted
// functions made injective with inverse-function axioms.
//
//	SHA256(m) = sha_<len(m)>(m[0:1], m[1:33], m[33:65], ...)
//
// one function symbol per message length, whose arguments are the first byte
// and then the following bytes in 32-byte pieces (so that the two children of
// a Merkle node, and a record behind its domain-separation byte, are whole
// arguments). Each application gets the ground axioms inv_i(sha_n(x)) = x_i
// (one per argument) and shaLen(sha_n(x)) = n, which make SHA-256 injective on
// messages: exactly the collision-resistance assumption, and nothing else is
// assumed about it. Equalities between two applications are decomposed
// structurally by the term layer (TermTable.Eq), which is the same fact.

import (
	"crypto/ed25519"
	"crypto/sha256"
	"fmt"
	"strconv"
	"strings"
	"go/types"
	"math/big"

	"golang.org/x/tools/go/ssa"
)


func uf_axioms(s *Solver, app *Term) {
	tt := s.tt
	switch app.name {
	default:
		if isShaApp(app.name) {
			for i, a := range app.args {
				s.AssertGlobal(tt.Eq(tt.App(fmt.Sprintf("%s_inv%d", app.name, i), a.w, app), a))
			}
			n, _ := strconv.Atoi(app.name[4:])
			s.AssertGlobal(tt.Eq(tt.App("shaLen", 64, app), mkConst(64, uint64(n))))
		}
		if len(app.name) > 4 && app.name[:4] == "inj_" {
			// generic injective function declared by a harness (vUF): one inverse per argument
			for i, a := range app.args {
				s.AssertGlobal(tt.Eq(tt.App(fmt.Sprintf("%s_inv%d", app.name, i), a.w, app), a))
			}
		}
	}
}

func (in *Interp) packBytes(bs []*Term, n int) *Term {
	// little-endian packing (byte i is bits 8i..8i+7, like hash values), zero
	// padded to n bytes, so that the bytes of a hash re-assemble to the hash term
	tt := in.tt
	var acc *Term
	for i := 0; i < n; i++ {
		var b *Term
		if i < len(bs) {
			b = bs[i]
		} else {
			b = mkConst(8, 0)
		}
		if acc == nil {
			acc = b
		} else {
			acc = tt.Concat(b, acc)
		}
	}
	return acc
}

type shaInfo struct {
	msg []*Term
}

func (in *Interp) shaTable() map[*Term]*shaInfo {
	m, _ := in.pathState["shaMsgs"].(map[*Term]*shaInfo)
	if m == nil {
		m = map[*Term]*shaInfo{}
		in.pathState["shaMsgs"] = m
	}
	return m
}

// sha256Term returns the 256-bit digest term of a message of symbolic bytes.
// Fully concrete messages are hashed for real.
func (in *Interp) sha256Term(msg []*Term) *Term {
	allConst := true
	for _, b := range msg {
		if !b.IsConst() {
			allConst = false
			break
		}
	}
	if allConst && in.shaRealConst {
		buf := make([]byte, len(msg))
		for i, b := range msg {
			buf[i] = byte(b.c)
		}
		d := sha256.Sum256(buf)
		// byte i of the digest is bits 8i..8i+7 of the term (see hashBytes)
		v := new(big.Int)
		for i := 31; i >= 0; i-- {
			v.Lsh(v, 8)
			v.Or(v, big.NewInt(int64(d[i])))
		}
		return mkBigConst(256, v)
	}
	tt := in.tt
	var args []*Term
	if len(msg) == 0 {
		args = append(args, mkConst(8, 0))
	} else {
		args = append(args, msg[0])
		for i := 1; i < len(msg); i += 32 {
			j := i + 32
			if j > len(msg) {
				j = len(msg)
			}
			args = append(args, in.packBytes(msg[i:j], j-i))
		}
	}
	res := tt.App(fmt.Sprintf("sha_%d", len(msg)), 256, args...)
	in.shaTable()[res] = &shaInfo{msg: append([]*Term(nil), msg...)}
	in.w.usedUF = true
	return res
}

func (in *Interp) hashBytes(d *Term) Arr {
	arr := make(Arr, 32)
	for i := range arr {
		arr[i] = in.tt.Extract(d, 8*i+7, 8*i)
	}
	return arr
}

func termsOf(v Value) []*Term {
	es := sliceElems(v)
	out := make([]*Term, len(es))
	for i, e := range es {
		out[i] = e.(*Term)
	}
	return out
}

func (in *Interp) digestState() map[Ptr][]*Term {
	m, _ := in.pathState["shaDigests"].(map[Ptr][]*Term)
	if m == nil {
		m = map[Ptr][]*Term{}
		in.pathState["shaDigests"] = m
	}
	return m
}

func init() {
	reg("crypto/sha256.Sum256", func(in *Interp, c *frame, fn *ssa.Function, a []Value) Value {
		return in.hashBytes(in.sha256Term(termsOf(a[0])))
	})
	reg("crypto/sha256.New", func(in *Interp, c *frame, fn *ssa.Function, a []Value) Value {
		pkg := in.prog.ImportedPackage("crypto/sha256")
		dt := pkg.Type("digest")
		if dt == nil {
			panic(unsupported("crypto/sha256.digest type not found"))
		}
		cell := new(Value)
		*cell = mkConst(64, 0) // opaque placeholder; state lives in the side table
		in.digestState()[Ptr(cell)] = []*Term{}
		return Iface{T: types.NewPointer(dt.Type()), V: Ptr(cell)}
	})
	reg("(*crypto/sha256.digest).Write", func(in *Interp, c *frame, fn *ssa.Function, a []Value) Value {
		p := a[0].(Ptr)
		st := in.digestState()
		bs := termsOf(a[1])
		st[p] = append(st[p], bs...)
		return Tuple{mkConst(64, uint64(len(bs))), Iface{}}
	})
	reg("(*crypto/sha256.digest).Sum", func(in *Interp, c *frame, fn *ssa.Function, a []Value) Value {
		p := a[0].(Ptr)
		d := in.hashBytes(in.sha256Term(in.digestState()[p]))
		prefix, _ := a[1].(Slice)
		elems := make([]Value, 32)
		for i := range elems {
			elems[i] = d[i]
		}
		return in.appendSlice(types.NewSlice(types.Typ[types.Uint8]), prefix, elems)
	})
	reg("(*crypto/sha256.digest).Reset", func(in *Interp, c *frame, fn *ssa.Function, a []Value) Value {
		in.digestState()[a[0].(Ptr)] = []*Term{}
		return nil
	})
	reg("(*crypto/sha256.digest).Size", func(in *Interp, c *frame, fn *ssa.Function, a []Value) Value {
		return mkConst(64, 32)
	})
	reg("(*crypto/sha256.digest).BlockSize", func(in *Interp, c *frame, fn *ssa.Function, a []Value) Value {
		return mkConst(64, 64)
	})

	// vUF(name string, outBytes int, args ...[]byte) []byte: an injective
	// uninterpreted function from byte strings to byte strings (harness-level
	// abstraction of signatures). The native twin is provided by the harness.
	harnessAPI["vUFBytes"] = func(in *Interp, c *frame, fn *ssa.Function, a []Value) Value {
		name := "inj_" + sanitize(argStr(a[0]))
		nOut := argInt(a[1])
		msg := termsOf(a[2])
		var arg *Term
		if len(msg) == 0 {
			arg = mkConst(8, 0)
		} else {
			arg = in.packBytes(msg, len(msg))
		}
		app := in.tt.App(fmt.Sprintf("%s_%d_%d", name, len(msg), nOut), 8*nOut, arg)
		in.w.usedUF = true
		out := make([]*Term, nOut)
		for i := range out {
			out[i] = in.tt.Extract(app, 8*i+7, 8*i)
		}
		return termsToSlice(out)
	}
}

func bigToHashBytes(v *big.Int) []byte {
	out := make([]byte, 32)
	b := v.Bytes()
	for i := 0; i < len(b) && i < 32; i++ {
		out[i] = b[len(b)-1-i]
	}
	return out
}

func hashBytesToBig(d []byte) *big.Int {
	v := new(big.Int)
	for i := len(d) - 1; i >= 0; i-- {
		v.Lsh(v, 8)
		v.Or(v, big.NewInt(int64(d[i])))
	}
	return v
}

// liftHashes rewrites the model values of free hash inputs that the model
// equates with a SHA-256 application, so that the equation also holds with the
// real hash function when the counterexample is replayed natively.
func (w *Worker) liftHashes(inputs []DrawVal) []DrawVal {
	apps := w.in.shaTable()
	if len(apps) == 0 {
		return inputs
	}
	// environment: all drawn variables
	env := map[string]*big.Int{}
	var vars []*Term
	for _, d := range w.draws {
		for _, t := range d.Terms {
			if !t.IsConst() {
				vars = append(vars, t)
			}
		}
	}
	for k, v := range w.solver.Model(vars) {
		env[k] = v
	}
	type hd struct {
		idx int
		v   *Term
	}
	var hashDraws []hd
	for i, d := range w.draws {
		if d.Kind == "hash" && !d.Terms[0].IsConst() {
			hashDraws = append(hashDraws, hd{i, d.Terms[0]})
		}
	}
	if len(hashDraws) == 0 {
		return inputs
	}
	var order []*Term
	for a := range apps {
		order = append(order, a)
	}
	for i := 1; i < len(order); i++ {
		for j := i; j > 0 && order[j].id < order[j-1].id; j-- {
			order[j], order[j-1] = order[j-1], order[j]
		}
	}
	modelVal := map[*Term]*big.Int{}
	for _, a := range order {
		if v := w.solver.Value(a); v != nil {
			modelVal[a] = v
		}
	}
	for iter := 0; iter < 6; iter++ {
		memo := map[*Term]*big.Int{}
		var ufEval func(app *Term, args []*big.Int) *big.Int
		ufEval = func(app *Term, args []*big.Int) *big.Int {
			if info := apps[app]; info != nil {
				buf := make([]byte, len(info.msg))
				for i, b := range info.msg {
					buf[i] = byte(b.Eval(env, ufEval, memo).Uint64())
				}
				d := sha256.Sum256(buf)
				return hashBytesToBig(d[:])
			}
			if v, ok := modelVal[app]; ok {
				return v
			}
			if v := w.solver.Value(app); v != nil {
				return v
			}
			return big.NewInt(0)
		}
		changed := false
		for _, h := range hashDraws {
			mv := env[ref(h.v)]
			orig := mkBigConst(256, hashBytesToBig(inputs[h.idx].B))
			_ = mv
			for _, a := range order {
				if modelVal[a] != nil && modelVal[a].Cmp(orig.bigVal()) == 0 {
					cyc := false
					for _, v := range a.Vars() {
						if v == h.v {
							cyc = true
						}
					}
					if cyc {
						continue
					}
					real := ufEval(a, nil)
					if verbose {
						fmt.Printf("lift: draw %s model=%x matches app t%d (msg %d bytes) real=%x\n", ref(h.v), bigToHashBytes(orig.bigVal()), a.id, len(apps[a].msg), bigToHashBytes(real))
					}
					if env[ref(h.v)] == nil || env[ref(h.v)].Cmp(real) != 0 {
						env[ref(h.v)] = real
						changed = true
					}
					break
				}
			}
		}
		if !changed {
			break
		}
	}
	out := append([]DrawVal(nil), inputs...)
	for _, h := range hashDraws {
		if v := env[ref(h.v)]; v != nil {
			out[h.idx].B = bigToHashBytes(v)
		}
	}
	return out
}

// acyclicityHints: for every free hash input d and every SHA application A
// whose message depends on d, the constraint d != A; and pairwise
// distinctness of the free hash inputs. Used only to pick counterexample
// models that replay with the real hash function, never for verdicts.
func (w *Worker) acyclicityHints() []*Term {
	apps := w.in.shaTable()
	var out []*Term
	var hs []*Term
	for _, d := range w.draws {
		if d.Kind == "hash" && !d.Terms[0].IsConst() {
			hs = append(hs, d.Terms[0])
		}
	}
	for a := range apps {
		vs := a.Vars()
		for _, h := range hs {
			for _, v := range vs {
				if v == h {
					out = append(out, w.tt.Not(w.tt.Eq(h, a)))
				}
			}
		}
	}
	return out
}

func isShaApp(name string) bool {
	return strings.HasPrefix(name, "sha_") && !strings.Contains(name, "_inv")
}

// ---- Ed25519: key derivation is real (concrete seeds); signatures are
// abstract: Sign hands out a distinct constant per distinct message and Verify
// accepts exactly the pairs handed out (unforgeability; one key pair per run).
type edSigned struct {
	msg Str
	sig []byte
}

func (in *Interp) edTable() *[]edSigned {
	t, _ := in.pathState["ed25519"].(*[]edSigned)
	if t == nil {
		t = &[]edSigned{}
		in.pathState["ed25519"] = t
	}
	return t
}

func init() {
	reg("crypto/ed25519.NewKeyFromSeed", func(in *Interp, c *frame, fn *ssa.Function, a []Value) Value {
		s := bytesToStr(a[0])
		if !s.IsConcrete() {
			panic(unsupported("ed25519.NewKeyFromSeed with a symbolic seed"))
		}
		key := ed25519.NewKeyFromSeed([]byte(s.Concrete()))
		ts := make([]*Term, len(key))
		for i, b := range key {
			ts[i] = mkConst(8, uint64(b))
		}
		return termsToSlice(ts)
	})
	reg("crypto/ed25519.Sign", func(in *Interp, c *frame, fn *ssa.Function, a []Value) Value {
		msg := bytesToStr(a[1])
		tab := in.edTable()
		for _, e := range *tab {
			if e.msg.Len() == msg.Len() && in.decide(in.strEq(e.msg, msg)) {
				return termsToSlice(constBytes(e.sig))
			}
		}
		sig := make([]byte, 64)
		n := len(*tab) + 1
		sig[0], sig[1], sig[2], sig[3] = 0xED, 0x25, byte(n>>8), byte(n)
		*tab = append(*tab, edSigned{msg, sig})
		in.intrSeen["crypto/ed25519.Sign (abstract: distinct constant per message)"] = true
		return termsToSlice(constBytes(sig))
	})
	reg("crypto/ed25519.Verify", func(in *Interp, c *frame, fn *ssa.Function, a []Value) Value {
		msg, sig := bytesToStr(a[1]), bytesToStr(a[2])
		res := tFalse
		for _, e := range *in.edTable() {
			if e.msg.Len() != msg.Len() || len(e.sig) != sig.Len() {
				continue
			}
			res = in.tt.Or(res, in.tt.And(in.strEq(e.msg, msg), in.strEq(mkStr(string(e.sig)), sig)))
		}
		return res
	})
}

func constBytes(b []byte) []*Term {
	ts := make([]*Term, len(b))
	for i, x := range b {
		ts[i] = mkConst(8, uint64(x))
	}
	return ts
}
