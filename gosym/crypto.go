package main

// uf_axioms is called when an uninterpreted-function application is first
// sent to a solver; it asserts the inverse-function axiom instances that make
// the hash abstractions injective.
func uf_axioms(s *Solver, app *Term) {
	ufAxiomsImpl(s, app)
}

var ufAxiomsImpl = func(s *Solver, app *Term) {}
