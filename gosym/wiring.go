package main

// Bit-wiring normalisation. Terms built only from concat, extract, zero
// extension, shifts by constants, masks with contiguous constants and
// disjunctions of pieces that do not overlap (the shape of byte packing,
// base64 and hex arithmetic) are rewritten to a canonical concatenation of
// extracts, so that two different ways of selecting the same bits of a value
// become the same term, and equalities between them decompose into
// equalities of slices.

import "math/bits"

type seg struct {
	src    *Term // nil: constant bits
	hi, lo int   // slice of src (src != nil)
	c      uint64
	w      int
}

// wiringSegs decomposes t (w <= 64) into segments, most significant first.
// ok is false if t is not a pure wiring term below the given depth.
func wiringSegs(t *Term, depth int) ([]seg, bool) {
	if t.w == 0 {
		return nil, false
	}
	atom := func() ([]seg, bool) { return []seg{{src: t, hi: t.w - 1, lo: 0, w: t.w}}, true }
	if depth == 0 {
		return atom()
	}
	switch t.op {
	case OConst:
		if t.w > 64 {
			return atom()
		}
		return []seg{{c: t.c, w: t.w}}, true
	case OExtract:
		s, ok := wiringSegs(t.a, depth-1)
		if !ok {
			return atom()
		}
		return sliceSegs(s, t.hi, t.lo), true
	case OConcat:
		a, ok1 := wiringSegs(t.a, depth-1)
		b, ok2 := wiringSegs(t.b, depth-1)
		if !ok1 || !ok2 {
			return atom()
		}
		return append(append([]seg{}, a...), b...), true
	case OZext:
		a, ok := wiringSegs(t.a, depth-1)
		if !ok {
			return atom()
		}
		return append([]seg{{c: 0, w: t.w - t.a.w}}, a...), true
	case OShl, OLShr:
		if t.b.op != OConst || t.w > 64 {
			return atom()
		}
		k := int(t.b.c)
		if t.b.c >= uint64(t.w) {
			return []seg{{c: 0, w: t.w}}, true
		}
		a, ok := wiringSegs(t.a, depth-1)
		if !ok {
			return atom()
		}
		if k == 0 {
			return a, true
		}
		if t.op == OShl {
			return append(sliceSegs(a, t.w-1-k, 0), seg{c: 0, w: k}), true
		}
		return append([]seg{{c: 0, w: k}}, sliceSegs(a, t.w-1, k)...), true
	case OBAnd:
		x, m := t.a, t.b
		if x.op == OConst {
			x, m = m, x
		}
		if m.op != OConst || t.w > 64 || m.c == 0 {
			return atom()
		}
		lo := bits.TrailingZeros64(m.c)
		run := m.c >> uint(lo)
		if run&(run+1) != 0 {
			return atom() // not a contiguous mask
		}
		hi := lo + bits.Len64(run) - 1
		a, ok := wiringSegs(x, depth-1)
		if !ok {
			return atom()
		}
		var out []seg
		if hi < t.w-1 {
			out = append(out, seg{c: 0, w: t.w - 1 - hi})
		}
		out = append(out, sliceSegs(a, hi, lo)...)
		if lo > 0 {
			out = append(out, seg{c: 0, w: lo})
		}
		return out, true
	case OBOr:
		if t.w > 64 {
			return atom()
		}
		a, ok1 := wiringSegs(t.a, depth-1)
		b, ok2 := wiringSegs(t.b, depth-1)
		if !ok1 || !ok2 {
			return atom()
		}
		// merge piecewise; every piece must have a zero constant on one side
		var out []seg
		pos := t.w - 1
		ia, ib := 0, 0
		ra, rb := a[0], b[0]
		for pos >= 0 {
			n := ra.w
			if rb.w < n {
				n = rb.w
			}
			pa, pb := headSeg(ra, n), headSeg(rb, n)
			switch {
			case pa.src == nil && pb.src == nil:
				out = append(out, seg{c: pa.c | pb.c, w: n})
			case pa.src == nil && pa.c == 0:
				out = append(out, pb)
			case pb.src == nil && pb.c == 0:
				out = append(out, pa)
			default:
				return atom()
			}
			pos -= n
			ra = tailSeg(ra, n)
			rb = tailSeg(rb, n)
			if ra.w == 0 {
				ia++
				if ia < len(a) {
					ra = a[ia]
				}
			}
			if rb.w == 0 {
				ib++
				if ib < len(b) {
					rb = b[ib]
				}
			}
		}
		return out, true
	}
	return atom()
}

// headSeg returns the n most significant bits of s, tailSeg the rest.
func headSeg(s seg, n int) seg {
	if s.src == nil {
		return seg{c: (s.c >> uint(s.w-n)) & mask(n), w: n}
	}
	return seg{src: s.src, hi: s.hi, lo: s.hi - n + 1, w: n}
}

func tailSeg(s seg, n int) seg {
	if s.src == nil {
		return seg{c: s.c & mask(s.w-n), w: s.w - n}
	}
	return seg{src: s.src, hi: s.hi - n, lo: s.lo, w: s.w - n}
}

// sliceSegs returns bits hi..lo of the value described by s (total width = sum of w).
func sliceSegs(s []seg, hi, lo int) []seg {
	total := 0
	for _, x := range s {
		total += x.w
	}
	var out []seg
	pos := total - 1 // bit index of the msb of the current segment
	for _, x := range s {
		top, bot := pos, pos-x.w+1
		pos -= x.w
		if top < lo || bot > hi {
			continue
		}
		h, l := top, bot
		if h > hi {
			h = hi
		}
		if l < lo {
			l = lo
		}
		// bits h..l of the whole = bits (h-bot)..(l-bot) of the segment
		if x.src == nil {
			out = append(out, seg{c: (x.c >> uint(l-bot)) & mask(h-l+1), w: h - l + 1})
		} else {
			out = append(out, seg{src: x.src, hi: x.lo + (h - bot), lo: x.lo + (l - bot), w: h - l + 1})
		}
	}
	return out
}

// fromSegs rebuilds a canonical term: adjacent constants and adjacent slices of
// one source are merged (Concat and Extract do the latter).
func (tt *TermTable) fromSegs(s []seg) *Term {
	if len(s) > 1 && s[0].src == nil && s[0].c == 0 {
		rest := tt.fromSegs(s[1:])
		return tt.Zext(rest, rest.w+s[0].w)
	}
	var acc *Term
	for _, x := range s {
		var p *Term
		if x.src == nil {
			p = mkConst(x.w, x.c)
		} else {
			p = tt.Extract(x.src, x.hi, x.lo)
		}
		if acc == nil {
			acc = p
		} else {
			acc = tt.Concat(acc, p)
		}
	}
	return acc
}

// wiringNormal returns the canonical form of a freshly built shift/mask/or
// term when it is pure wiring over at least one non-trivial slice, else nil.
func (tt *TermTable) wiringNormal(t *Term) *Term {
	if t.w > 64 || t.w == 0 {
		return nil
	}
	s, ok := wiringSegs(t, 24)
	if !ok || len(s) == 0 {
		return nil
	}
	if len(s) == 1 && s[0].src == t {
		return nil
	}
	for _, x := range s {
		if x.src == t {
			return nil
		}
	}
	return tt.fromSegs(s)
}

// ---- merging of slice equalities in conjunctions ----

// sliceEq recognises Eq(extract(A,h,l), extract(B,h,l)) and Eq(A,B) on
// bit-vectors, returning A, B (ordered by id) and the range.
func sliceEq(t *Term) (a, b *Term, hi, lo int, ok bool) {
	if t.op != OEq || t.a.w == 0 {
		return
	}
	x, y := t.a, t.b
	if x.op == OExtract && y.op == OExtract && x.hi == y.hi && x.lo == y.lo && x.a.w == y.a.w {
		a, b, hi, lo = x.a, y.a, x.hi, x.lo
	} else if x.op != OConst && y.op != OConst && x.op != OExtract && y.op != OExtract && x.w > 8 {
		a, b, hi, lo = x, y, x.w-1, 0
	} else {
		return
	}
	if a.id > b.id {
		a, b = b, a
	}
	ok = true
	return
}

// andMerge tries to merge the slice equality a into the conjunction chain b
// (right-nested Ands). It returns nil if nothing merges.
func (tt *TermTable) andMerge(a, b *Term) *Term {
	xa, xb, hi, lo, ok := sliceEq(a)
	if !ok {
		return nil
	}
	// walk the chain, looking for an adjacent or overlapping slice equality on the same pair
	var prefix []*Term
	cur := b
	for steps := 0; steps < 64; steps++ {
		var head, rest *Term
		if cur.op == OAnd {
			head, rest = cur.a, cur.b
		} else {
			head, rest = cur, nil
		}
		if ya, yb, h2, l2, ok2 := sliceEq(head); ok2 && ya == xa && yb == xb && !(l2 > hi+1 || lo > h2+1) {
			nh, nl := hi, lo
			if h2 > nh {
				nh = h2
			}
			if l2 < nl {
				nl = l2
			}
			merged := tt.Eq(tt.Extract(xa, nh, nl), tt.Extract(xb, nh, nl))
			var tail *Term
			if rest == nil {
				tail = tTrue
			} else {
				tail = rest
			}
			res := tt.And(merged, tail)
			for i := len(prefix) - 1; i >= 0; i-- {
				res = tt.And(prefix[i], res)
			}
			return res
		}
		if rest == nil {
			return nil
		}
		prefix = append(prefix, head)
		cur = rest
	}
	return nil
}
