package main

// Models of unicode predicates on symbolic runes (interval disjunctions built
// from the running Go release's own tables), utf8 helpers built on the
// engine's decoder, and fork-free ASCII case mapping.

import (
	"go/types"
	"sync"
	"unicode"
	"unicode/utf8"

	"golang.org/x/tools/go/ssa"
)

type useBody struct{}

type interval struct{ lo, hi rune }

var predIntervals sync.Map // name -> []interval

func intervalsOf(name string, f func(rune) bool) []interval {
	if v, ok := predIntervals.Load(name); ok {
		return v.([]interval)
	}
	var res []interval
	in := false
	var lo rune
	for r := rune(0); r <= unicode.MaxRune+1; r++ {
		ok := r <= unicode.MaxRune && f(r)
		if ok && !in {
			in, lo = true, r
		} else if !ok && in {
			in = false
			res = append(res, interval{lo, r - 1})
		}
	}
	predIntervals.Store(name, res)
	return res
}

func (in *Interp) predTerm(name string, f func(rune) bool, r *Term) *Term {
	if r.IsConst() {
		return mkBool(f(rune(r.sval())))
	}
	key := "pred:" + name
	cache, _ := in.pathState[key].(map[*Term]*Term)
	if cache == nil {
		cache = map[*Term]*Term{}
		in.pathState[key] = cache
	}
	if t, ok := cache[r]; ok {
		return t
	}
	tt := in.tt
	res := tFalse
	for _, iv := range intervalsOf(name, f) {
		var c *Term
		if iv.lo == iv.hi {
			c = tt.Eq(r, mkConst(32, uint64(iv.lo)))
		} else {
			c = tt.And(tt.Cmp(OULe, mkConst(32, uint64(iv.lo)), r), tt.Cmp(OULe, r, mkConst(32, uint64(iv.hi))))
		}
		res = tt.Or(res, c)
	}
	cache[r] = res
	return res
}

func asciiLower(tt *TermTable, b *Term) *Term {
	isUp := tt.And(tt.Cmp(OULe, mkConst(8, 'A'), b), tt.Cmp(OULe, b, mkConst(8, 'Z')))
	return tt.Ite(isUp, tt.Bin(OAdd, b, mkConst(8, 32)), b)
}

func asciiUpper(tt *TermTable, b *Term) *Term {
	isLo := tt.And(tt.Cmp(OULe, mkConst(8, 'a'), b), tt.Cmp(OULe, b, mkConst(8, 'z')))
	return tt.Ite(isLo, tt.Bin(OSub, b, mkConst(8, 32)), b)
}

func (in *Interp) allASCII(s Str) *Term {
	tt := in.tt
	c := tTrue
	for i := 0; i < s.Len(); i++ {
		c = tt.And(c, tt.Cmp(OULt, s.At(i), mkConst(8, 0x80)))
	}
	return c
}

func init() {
	preds := map[string]func(rune) bool{
		"unicode.IsLetter": unicode.IsLetter, "unicode.IsDigit": unicode.IsDigit, "unicode.IsNumber": unicode.IsNumber,
		"unicode.IsSpace": unicode.IsSpace, "unicode.IsPrint": unicode.IsPrint, "unicode.IsUpper": unicode.IsUpper,
		"unicode.IsLower": unicode.IsLower, "unicode.IsPunct": unicode.IsPunct, "unicode.IsGraphic": unicode.IsGraphic,
		"unicode.IsControl": unicode.IsControl, "unicode.IsMark": unicode.IsMark, "unicode.IsSymbol": unicode.IsSymbol,
		"unicode.IsTitle": unicode.IsTitle, "strconv.IsPrint": unicode.IsPrint,
	}
	for name, f := range preds {
		name, f := name, f
		reg(name, func(in *Interp, c *frame, fn *ssa.Function, a []Value) Value {
			return in.predTerm(name, f, a[0].(*Term))
		})
	}
	caseMap := func(name string, f func(rune) rune, ascii func(*TermTable, *Term) *Term) {
		reg(name, func(in *Interp, c *frame, fn *ssa.Function, a []Value) Value {
			r := a[0].(*Term)
			if r.IsConst() {
				return mkConst(32, uint64(f(rune(r.sval()))))
			}
			tt := in.tt
			if in.w.branchT(tt.Cmp(OULt, r, mkConst(32, 0x80))) {
				return tt.Zext(ascii(tt, tt.Extract(r, 7, 0)), 32)
			}
			panic(unsupported(name + " of a symbolic non-ASCII rune"))
		})
	}
	caseMap("unicode.ToLower", unicode.ToLower, asciiLower)
	caseMap("unicode.ToUpper", unicode.ToUpper, asciiUpper)
	reg("unicode.SimpleFold", func(in *Interp, c *frame, fn *ssa.Function, a []Value) Value {
		r := a[0].(*Term)
		if r.IsConst() {
			return mkConst(32, uint64(unicode.SimpleFold(rune(r.sval()))))
		}
		tt := in.tt
		if in.w.branchT(tt.Cmp(OULt, r, mkConst(32, 0x80))) {
			b := tt.Extract(r, 7, 0)
			c8 := func(v byte) *Term { return mkConst(8, uint64(v)) }
			isUp := tt.And(tt.Cmp(OULe, c8('A'), b), tt.Cmp(OULe, b, c8('Z')))
			isLo := tt.And(tt.Cmp(OULe, c8('a'), b), tt.Cmp(OULe, b, c8('z')))
			// 'K'->'k', 'k'->U+212A, 'S'->'s', 's'->U+017F; other letters swap case
			res := tt.Zext(tt.Ite(isUp, tt.Bin(OAdd, b, c8(32)), tt.Ite(isLo, tt.Bin(OSub, b, c8(32)), b)), 32)
			res = tt.Ite(tt.Eq(b, c8('k')), mkConst(32, 0x212A), res)
			res = tt.Ite(tt.Eq(b, c8('s')), mkConst(32, 0x017F), res)
			return res
		}
		// the two non-ASCII members of ASCII fold orbits: K k U+212A, S s U+017F
		if in.w.branchT(tt.Eq(r, mkConst(32, 0x212A))) {
			return mkConst(32, 'K')
		}
		if in.w.branchT(tt.Eq(r, mkConst(32, 0x017F))) {
			return mkConst(32, 'S')
		}
		panic(unsupported("unicode.SimpleFold of a symbolic non-ASCII rune"))
	})

	decode := func(in *Interp, s Str) Value {
		r, size := in.decodeRune(s, 0)
		return Tuple{r, mkConst(64, uint64(size))}
	}
	reg("unicode/utf8.DecodeRuneInString", func(in *Interp, c *frame, fn *ssa.Function, a []Value) Value {
		return decode(in, a[0].(Str))
	})
	reg("unicode/utf8.DecodeRune", func(in *Interp, c *frame, fn *ssa.Function, a []Value) Value {
		return decode(in, bytesToStr(a[0]))
	})
	valid := func(in *Interp, s Str) Value {
		pos := 0
		for pos < s.Len() {
			r, size := in.decodeRune(s, pos)
			if size == 1 && r.IsConst() && r.c == utf8.RuneError {
				return tFalse
			}
			pos += size
		}
		return tTrue
	}
	reg("unicode/utf8.ValidString", func(in *Interp, c *frame, fn *ssa.Function, a []Value) Value {
		return valid(in, a[0].(Str))
	})
	reg("unicode/utf8.Valid", func(in *Interp, c *frame, fn *ssa.Function, a []Value) Value {
		return valid(in, bytesToStr(a[0]))
	})
	count := func(in *Interp, s Str) Value {
		n, pos := 0, 0
		for pos < s.Len() {
			_, size := in.decodeRune(s, pos)
			pos += size
			n++
		}
		return mkConst(64, uint64(n))
	}
	reg("unicode/utf8.RuneCountInString", func(in *Interp, c *frame, fn *ssa.Function, a []Value) Value {
		return count(in, a[0].(Str))
	})
	reg("unicode/utf8.RuneCount", func(in *Interp, c *frame, fn *ssa.Function, a []Value) Value {
		return count(in, bytesToStr(a[0]))
	})

	// fork-free ASCII case mapping; non-ASCII input runs the library body
	mapCase := func(ascii func(*TermTable, *Term) *Term) intrinsic {
		return func(in *Interp, c *frame, fn *ssa.Function, a []Value) Value {
			s := a[0].(Str)
			if s.IsConcrete() || s.opaque {
				return useBody{}
			}
			cond := in.allASCII(s)
			if cond.IsConst() && cond.c == 0 {
				return useBody{}
			}
			if !cond.IsConst() && !in.w.branchT(cond) {
				return useBody{}
			}
			out := make([]*Term, s.Len())
			for i := range out {
				out[i] = ascii(in.tt, s.At(i))
			}
			return strFromTerms(out)
		}
	}
	reg("strings.ToLower", mapCase(asciiLower))
	reg("strings.ToUpper", mapCase(asciiUpper))
	reg("strings.EqualFold", func(in *Interp, c *frame, fn *ssa.Function, a []Value) Value {
		s, t := a[0].(Str), a[1].(Str)
		if (s.IsConcrete() && t.IsConcrete()) || s.opaque || t.opaque {
			return useBody{}
		}
		// exact closed form when both sides are ASCII and free of the
		// letters whose fold orbit leaves ASCII (k, s)
		cond := in.tt.And(in.allASCII(s), in.allASCII(t))
		if cond.IsConst() && cond.c == 0 {
			return useBody{}
		}
		if !cond.IsConst() && !in.w.branchT(cond) {
			return useBody{}
		}
		if s.Len() != t.Len() {
			return tFalse
		}
		tt := in.tt
		res := tTrue
		for i := 0; i < s.Len(); i++ {
			res = tt.And(res, tt.Eq(asciiLower(tt, s.At(i)), asciiLower(tt, t.At(i))))
		}
		return res
	})
	_ = types.Typ
}
