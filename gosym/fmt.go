package main

// Models of fmt and errors: exact where the formatted text is determined
// (constant format string; strings, integers, byte slices, errors and
// Stringers as operands), opaque otherwise.

import (
	"fmt"
	"go/types"
	"strings"

	"golang.org/x/tools/go/ssa"
)

func (in *Interp) methodOf(T types.Type, name string) *ssa.Function {
	ms := in.prog.MethodSets.MethodSet(T)
	for i := 0; i < ms.Len(); i++ {
		sel := ms.At(i)
		if sel.Obj().Name() == name {
			return in.prog.MethodValue(sel)
		}
	}
	return nil
}

func isByteSlice(t types.Type) bool {
	s, ok := t.Underlying().(*types.Slice)
	if !ok {
		return false
	}
	b, ok := s.Elem().Underlying().(*types.Basic)
	return ok && b.Kind() == types.Uint8
}

func isByteArray(t types.Type) bool {
	s, ok := t.Underlying().(*types.Array)
	if !ok {
		return false
	}
	b, ok := s.Elem().Underlying().(*types.Basic)
	return ok && b.Kind() == types.Uint8
}

func opaqueStr(s string) Str { return Str{s: s, opaque: true} }

func (in *Interp) hexOf(s Str, upper bool) Str {
	tt := in.tt
	out := make([]*Term, 0, 2*s.Len())
	a := uint64('a')
	if upper {
		a = 'A'
	}
	// same construction as the table look-up digits[c>>4] in fmt and
	// encoding/hex, so that both produce identical terms
	table := "0123456789abcdef"
	if upper {
		table = "0123456789ABCDEF"
	}
	_ = a
	base := make([]Value, 16)
	for i := range base {
		base[i] = mkConst(8, uint64(table[i]))
	}
	digit := func(n *Term) *Term {
		if n.IsConst() {
			return base[n.c].(*Term)
		}
		return in.symLoad(SymPtr{base: base, idx: tt.Zext(n, 64)}).(*Term)
	}
	for i := 0; i < s.Len(); i++ {
		b := s.At(i)
		out = append(out, digit(tt.Bin(OLShr, b, mkConst(8, 4))), digit(tt.Bin(OBAnd, b, mkConst(8, 15))))
	}
	return strFromTerms(out)
}

// formatOne renders one operand for a directive such as "%-5d".
func (in *Interp) formatOne(caller *frame, directive string, verb byte, arg Value) Str {
	a, isI := arg.(Iface)
	if !isI {
		return opaqueStr("%!" + string(verb) + "(?)")
	}
	plain := len(directive) == 2
	if a.T == nil {
		if verb == 'v' {
			return mkStr(fmt.Sprintf(directive, nil))
		}
		return mkStr(fmt.Sprintf(directive, nil))
	}
	if verb == 'T' {
		return mkStr(fmt.Sprintf(strings.Replace(directive, "T", "s", 1), types.TypeString(a.T, func(p *types.Package) string { return p.Name() })))
	}
	v := a.V
	// error / Stringer
	switch verb {
	case 'v', 's', 'q', 'w', 'x', 'X':
		if p, ok := v.(Ptr); !ok || p != nil {
			if m := in.methodOf(a.T, "Error"); m != nil && m.Signature.Params().Len() == 0 {
				v = in.call(caller, m, []Value{a.V})
			} else if m := in.methodOf(a.T, "String"); m != nil && m.Signature.Params().Len() == 0 && m.Signature.Results().Len() == 1 {
				v = in.call(caller, m, []Value{a.V})
			}
		}
	}
	dir := directive
	if verb == 'w' {
		dir = strings.Replace(directive, "w", "v", 1)
	}
	switch x := v.(type) {
	case Str:
		if x.opaque {
			return opaqueStr(x.s)
		}
		if x.IsConcrete() {
			return mkStr(fmt.Sprintf(dir, x.Concrete()))
		}
		switch {
		case plain && (verb == 's' || verb == 'v' || verb == 'w'):
			return x
		case plain && verb == 'q':
			if sp := in.prog.ImportedPackage("strconv"); sp != nil {
				if q := sp.Func("Quote"); q != nil {
					return in.call(caller, q, []Value{x}).(Str)
				}
			}
		case plain && (verb == 'x' || verb == 'X'):
			return in.hexOf(x, verb == 'X')
		}
		return opaqueStr("¿" + x.String() + "¿")
	case *Term:
		if !x.IsConst() {
			if x.w >= 8 && (verb == 'd' || verb == 'v') {
				_, signed, _ := intType(a.T)
				digits := in.formatInt(x, signed)
				// width / zero padding: only the forms %d, %0Nd are modelled
				if plain {
					return digits
				}
				if len(directive) == 4 && directive[1] == '0' && directive[2] >= '1' && directive[2] <= '9' && !signed {
					n := int(directive[2] - '0')
					for digits.Len() < n {
						digits = strConcat(mkStr("0"), digits)
					}
					return digits
				}
				if len(directive) == 4 && directive[1] == '0' && directive[2] >= '1' && directive[2] <= '9' && signed {
					// non-negative values only (the sign would precede the padding)
					if digits.Len() > 0 && digits.At(0).IsConst() && digits.At(0).c == '-' {
						return opaqueStr("¿int¿")
					}
					n := int(directive[2] - '0')
					for digits.Len() < n {
						digits = strConcat(mkStr("0"), digits)
					}
					return digits
				}
			}
			return opaqueStr("¿int¿")
		}
		if x.w == 0 {
			return mkStr(fmt.Sprintf(dir, x.c != 0))
		}
		_, signed, _ := intType(a.T)
		if b, ok := a.T.Underlying().(*types.Basic); ok && b.Kind() == types.Int32 && (verb == 'c' || verb == 'q' || verb == 'U') {
			return mkStr(fmt.Sprintf(dir, rune(x.sval())))
		}
		if signed {
			return mkStr(fmt.Sprintf(dir, x.sval()))
		}
		if x.w == 8 {
			return mkStr(fmt.Sprintf(dir, uint8(x.c)))
		}
		return mkStr(fmt.Sprintf(dir, x.c))
	case Slice:
		if isByteSlice(a.T) {
			s := bytesToStr(x)
			if s.IsConcrete() {
				return mkStr(fmt.Sprintf(dir, []byte(s.Concrete())))
			}
			switch {
			case plain && verb == 's':
				return s
			case plain && (verb == 'x' || verb == 'X'):
				return in.hexOf(s, verb == 'X')
			}
			return opaqueStr("¿bytes¿")
		}
		// slices of strings etc. with %v / %q: render concretely when possible
		if verb == 'v' || verb == 'q' || verb == 's' {
			var parts []string
			ok := true
			for i := 0; i < x.Len; i++ {
				if es, isS := x.A[x.Off+i].(Str); isS && es.IsConcrete() {
					parts = append(parts, es.Concrete())
				} else {
					ok = false
				}
			}
			if ok {
				return mkStr(fmt.Sprintf(dir, parts))
			}
		}
		return opaqueStr("¿slice¿")
	case Arr:
		if isByteArray(a.T) {
			ts := make([]*Term, len(x))
			for i := range x {
				ts[i] = x[i].(*Term)
			}
			s := strFromTerms(ts)
			if plain && (verb == 'x' || verb == 'X') {
				return in.hexOf(s, verb == 'X')
			}
		}
		return opaqueStr("¿array¿")
	case Float:
		return mkStr(fmt.Sprintf(dir, x.f))
	}
	return opaqueStr("¿" + a.T.String() + "¿")
}

// sprintf returns the formatted string and the operands of %w verbs.
func (in *Interp) sprintf(caller *frame, formatV Value, argsV Value) (Str, []Value) {
	fs, ok := formatV.(Str)
	if !ok || !fs.IsConcrete() {
		return opaqueStr("¿format¿"), nil
	}
	format := fs.Concrete()
	var args []Value
	if s, ok := argsV.(Slice); ok {
		args = s.A[s.Off : s.Off+s.Len]
	}
	res := Str{}
	var wrapped []Value
	argi := 0
	i := 0
	for i < len(format) {
		j := strings.IndexByte(format[i:], '%')
		if j < 0 {
			res = strConcat(res, mkStr(format[i:]))
			break
		}
		res = strConcat(res, mkStr(format[i:i+j]))
		i += j
		k := i + 1
		for k < len(format) && strings.IndexByte("+-# 0123456789.*[]", format[k]) >= 0 {
			k++
		}
		if k >= len(format) {
			res = strConcat(res, mkStr("%!(NOVERB)"))
			break
		}
		verb := format[k]
		directive := format[i : k+1]
		i = k + 1
		if verb == '%' {
			res = strConcat(res, mkStr("%"))
			continue
		}
		if strings.ContainsAny(directive, "*[") {
			res = strConcat(res, opaqueStr("¿directive¿"))
			argi++
			continue
		}
		if argi >= len(args) {
			res = strConcat(res, mkStr("%!"+string(verb)+"(MISSING)"))
			continue
		}
		if verb == 'w' {
			wrapped = append(wrapped, args[argi])
		}
		res = strConcat(res, in.formatOne(caller, directive, verb, args[argi]))
		argi++
	}
	if argi < len(args) {
		res = strConcat(res, opaqueStr("%!(EXTRA)"))
	}
	return res, wrapped
}

func (in *Interp) newError(caller *frame, msg Str) Value {
	ep := in.prog.ImportedPackage("errors")
	if ep == nil {
		panic(unsupported("errors package not in program"))
	}
	return in.call(caller, ep.Func("New"), []Value{msg})
}

func (in *Interp) writeTo(caller *frame, w Value, s Str) Value {
	wi, ok := w.(Iface)
	if !ok || wi.T == nil {
		panic(in.runtimeError("invalid memory address or nil pointer dereference"))
	}
	m := in.methodOf(wi.T, "Write")
	if m == nil {
		panic(unsupported("Fprintf to writer without Write: " + wi.T.String()))
	}
	if s.opaque {
		panic(unsupported("writing opaque formatted text"))
	}
	data := in.conv(types.NewSlice(types.Typ[types.Uint8]), types.Typ[types.String], s)
	return in.call(caller, m, []Value{wi.V, data})
}

func (in *Interp) sprint(caller *frame, argsV Value, ln bool) Str {
	var args []Value
	if s, ok := argsV.(Slice); ok {
		args = s.A[s.Off : s.Off+s.Len]
	}
	res := Str{}
	prevString := true
	for i, a := range args {
		ai, _ := a.(Iface)
		_, isStr := ai.V.(Str)
		if i > 0 && (ln || (!isStr && !prevString)) {
			res = strConcat(res, mkStr(" "))
		}
		res = strConcat(res, in.formatOne(caller, "%v", 'v', a))
		prevString = isStr
	}
	if ln {
		res = strConcat(res, mkStr("\n"))
	}
	return res
}

func init() {
	reg("fmt.Sprintf", func(in *Interp, c *frame, fn *ssa.Function, a []Value) Value {
		s, _ := in.sprintf(c, a[0], a[1])
		return s
	})
	reg("fmt.Sprint", func(in *Interp, c *frame, fn *ssa.Function, a []Value) Value {
		return in.sprint(c, a[0], false)
	})
	reg("fmt.Sprintln", func(in *Interp, c *frame, fn *ssa.Function, a []Value) Value {
		return in.sprint(c, a[0], true)
	})
	reg("fmt.Errorf", func(in *Interp, c *frame, fn *ssa.Function, a []Value) Value {
		s, wrapped := in.sprintf(c, a[0], a[1])
		if len(wrapped) == 1 {
			if wi, ok := wrapped[0].(Iface); ok && wi.T != nil && in.methodOf(wi.T, "Error") != nil {
				fp := in.prog.ImportedPackage("fmt")
				if t := fp.Type("wrapError"); t != nil {
					cell := new(Value)
					*cell = Struct{s, wi}
					return Iface{T: types.NewPointer(t.Type()), V: Ptr(cell)}
				}
			}
		}
		return in.newError(c, s)
	})
	reg("fmt.Fprintf", func(in *Interp, c *frame, fn *ssa.Function, a []Value) Value {
		s, _ := in.sprintf(c, a[1], a[2])
		return in.writeTo(c, a[0], s)
	})
	reg("fmt.Fprint", func(in *Interp, c *frame, fn *ssa.Function, a []Value) Value {
		return in.writeTo(c, a[0], in.sprint(c, a[1], false))
	})
	reg("fmt.Fprintln", func(in *Interp, c *frame, fn *ssa.Function, a []Value) Value {
		return in.writeTo(c, a[0], in.sprint(c, a[1], true))
	})
	noout := func(in *Interp, c *frame, fn *ssa.Function, a []Value) Value {
		return Tuple{mkConst(64, 0), Iface{}}
	}
	reg("fmt.Printf", noout)
	reg("fmt.Println", noout)
	reg("fmt.Print", noout)

	reg("errors.As", func(in *Interp, c *frame, fn *ssa.Function, a []Value) Value {
		err, _ := a[0].(Iface)
		tgt, ok := a[1].(Iface)
		if !ok || tgt.T == nil {
			panic(targetPanic{Iface{T: in.rtErrType, V: mkStr("errors: target cannot be nil")}})
		}
		pt, ok := tgt.T.Underlying().(*types.Pointer)
		if !ok {
			panic(targetPanic{Iface{T: in.rtErrType, V: mkStr("errors: target must be a non-nil pointer")}})
		}
		X := pt.Elem()
		cell := tgt.V.(Ptr)
		for depth := 0; err.T != nil && depth < 64; depth++ {
			if itf, isI := X.Underlying().(*types.Interface); isI {
				if types.Implements(err.T, itf) {
					*cell = err
					return tTrue
				}
			} else if types.Identical(err.T, X) {
				*cell = copyVal(err.V)
				return tTrue
			}
			m := in.methodOf(err.T, "Unwrap")
			if m == nil || m.Signature.Results().Len() != 1 {
				break
			}
			next, isI := in.call(c, m, []Value{err.V}).(Iface)
			if !isI {
				break
			}
			err = next
		}
		return tFalse
	})
	reg("errors.Is", func(in *Interp, c *frame, fn *ssa.Function, a []Value) Value {
		err, _ := a[0].(Iface)
		tgt, _ := a[1].(Iface)
		if err.T == nil || tgt.T == nil {
			return mkBool(err.T == nil && tgt.T == nil)
		}
		for depth := 0; err.T != nil && depth < 64; depth++ {
			if types.Identical(err.T, tgt.T) && types.Comparable(err.T) {
				e := in.eq(err.V, tgt.V)
				if e.IsConst() {
					if e.c != 0 {
						return tTrue
					}
				} else if in.w.branchT(e) {
					return tTrue
				}
			}
			m := in.methodOf(err.T, "Unwrap")
			if m == nil || m.Signature.Results().Len() != 1 {
				break
			}
			next, isI := in.call(c, m, []Value{err.V}).(Iface)
			if !isI {
				break
			}
			err = next
		}
		return tFalse
	})
}

// formatInt renders a symbolic integer in decimal, forking on the sign and
// on the number of digits; digits are obtained by division by constants at
// the narrowest sufficient width.
func (in *Interp) formatInt(x *Term, signed bool) Str {
	tt := in.tt
	w := x.w
	neg := false
	if signed {
		if in.w.branchT(tt.Cmp(OSLt, x, mkConst(w, 0))) {
			neg = true
			x = tt.Neg(x) // MinInt stays MinInt: its unsigned reading is the magnitude
		}
	}
	// number of digits
	k := 1
	pow := uint64(10)
	for ; k < 20; k++ {
		if w < 64 && pow > mask(w) {
			break
		}
		if in.w.branchT(tt.Cmp(OULt, x, mkConst(w, pow))) {
			break
		}
		if pow > (^uint64(0))/10 {
			k++
			break
		}
		pow *= 10
	}
	// narrow
	nw := w
	switch {
	case k <= 2 && w > 8:
		nw = 8
	case k <= 4 && w > 16:
		nw = 16
	case k <= 9 && w > 32:
		nw = 32
	}
	y := x
	if nw < w {
		y = tt.Extract(x, nw-1, 0)
	}
	out := make([]*Term, k)
	for i := k - 1; i >= 0; i-- {
		d := tt.Bin(OURem, y, mkConst(nw, 10))
		out[i] = tt.Bin(OAdd, tt.Extract(d, 7, 0), mkConst(8, '0'))
		y = tt.Bin(OUDiv, y, mkConst(nw, 10))
	}
	s := strFromTerms(out)
	if neg {
		s = strConcat(mkStr("-"), s)
	}
	return s
}
