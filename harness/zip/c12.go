//go:build verif

package zip

import (
	"bytes"
	"path"
	"strings"

	"golang.org/x/mod/module"
)

func init() {
	vRegister("C12Unzip", VerifC12Unzip)
	vRegister("C12NonEmpty", VerifC12NonEmpty)
	vRegister("C12Twin", VerifC12Twin)
	vRegister("C05Create", VerifC05Create)
	vRegister("C05Twin", VerifC05Twin)
}

var vMod = module.Version{Path: "m.co/x", Version: "v1.0.0"}

const vPrefix = "m.co/x@v1.0.0/"

type vEntry struct {
	name     string
	declared int64
	data     []byte
	dirMode  bool
}

var vContents = [][]byte{nil, []byte("a"), []byte("ab")}

// vGenEntry draws one archive entry: the module prefix (exact, with one byte
// symbolic, or absent) followed by a symbolic tail, a declared size that is
// the content length or an arbitrary 64-bit value, and 0..2 bytes of content.
func vGenEntry(tag string) vEntry {
	var e vEntry
	if vParam("skel", 0) == 1 {
		// layout skeletons: collisions, file/directory clashes, go.mod placement, directory entries
		e.name = vPrefix + vSkelPath(tag)
		if vChoice(tag+".direntry", 2) == 1 {
			e.name += "/"
		}
		e.data = vContents[1]
		e.declared = 1
		if tag == "e0" {
			// only the first entry varies its declared size and header mode bits
			switch vChoice(tag+".extra", 3) {
			case 1:
				e.declared = vInt64(tag + ".declared")
			case 2:
				// directory mode bits in the header do not make an entry a directory: only a trailing slash does
				e.dirMode = true
			}
		}
		return e
	}
	tail := vString(tag+".tail", vChoice(tag+".len", vParam("maxtail", 3)+1))
	vAssume(vMatch(`^[\x00-\x7f]*$`, tail))
	switch vChoice(tag+".prefix", vParam("prefixkinds", 3)) {
	case 0:
		e.name = vPrefix + vTailDirs[vChoice(tag+".dir", len(vTailDirs))] + tail
	case 1:
		// prefix with one symbolic byte (case variants, other module, ...)
		b := vString(tag+".pbyte", 1)
		pos := []int{0, 5, 6, len(vPrefix) - 1}[vChoice(tag+".ppos", 4)]
		e.name = vPrefix[:pos] + b + vPrefix[pos+1:] + "f.go"
	case 2:
		e.name = tail
	}
	e.data = vContents[vChoice(tag+".content", len(vContents))]
	e.declared = int64(len(e.data))
	if vChoice(tag+".sizekind", 2) == 1 {
		e.declared = vInt64(tag + ".declared")
	}
	return e
}

var vTailDirs = []string{"", "a/", "A/", "go.mod/", "vendor/"}

// vRefEntryOK: the documented per-entry restrictions, given the names
// registered by earlier accepted entries. skip means the entry is the bare
// prefix (or is a directory entry) and produces no file.
func vRefEntryOK(e vEntry, reg []vName) (ok, isFile bool, rel string, names []vName) {
	if !strings.HasPrefix(e.name, vPrefix) {
		return false, false, "", nil
	}
	rel = e.name[len(vPrefix):]
	if rel == "" {
		return true, false, "", nil
	}
	isDir := strings.HasSuffix(rel, "/")
	if isDir {
		rel = rel[:len(rel)-1]
	}
	if !vRefClean(rel) || strings.HasPrefix(rel, "/") {
		return false, false, "", nil
	}
	if module.CheckFilePath(rel) != nil {
		return false, false, "", nil
	}
	if vRefCollides(reg, rel, isDir) {
		return false, false, "", vNamesOf(rel, isDir)
	}
	names = vNamesOf(rel, isDir)
	if isDir {
		return true, false, "", names
	}
	if base := path.Base(rel); strings.EqualFold(base, "go.mod") {
		if base != rel || rel != "go.mod" {
			return false, false, "", names
		}
	}
	if rel == "go.mod" && e.declared > MaxGoMod || rel == "LICENSE" && e.declared > MaxLICENSE {
		return false, false, "", names
	}
	return true, true, rel, names
}

// VerifC12Unzip: arbitrary archives of 1..maxentries entries.
func VerifC12Unzip() {
	n := 1 + vChoice("nentries", vParam("maxentries", 1))
	var es []vEntry
	var names []string
	var sizes []int64
	var datas [][]byte
	var dirs []bool
	for i := 0; i < n; i++ {
		e := vGenEntry("e" + string(rune('0'+i)))
		es = append(es, e)
		names = append(names, e.name)
		sizes = append(sizes, e.declared)
		datas = append(datas, e.data)
		dirs = append(dirs, e.dirMode)
	}
	zipPath := vFSTempDir("in.zip")
	dir := vFSTempDir("out")
	defer vFSCleanup()
	vFSPutZip(zipPath, names, sizes, datas, dirs)

	// reference verdict
	allOK := true
	var reg []vName
	var total int64
	sizeOK := true
	type want struct {
		rel  string
		data []byte
	}
	var wants []want
	contentOK := true
	for _, e := range es {
		ok, isFile, rel, nm := vRefEntryOK(e, reg)
		reg = append(reg, nm...)
		if !ok {
			allOK = false
		}
		// the size accounting runs for every file entry that passed the name checks
		if _, f, _, _ := vRefEntryOK(vEntry{name: e.name, declared: 0}, nil); f || isFile {
			if e.declared >= 0 && MaxZipFile-total >= e.declared {
				total += e.declared
			} else {
				sizeOK = false
			}
		}
		if ok && isFile {
			wants = append(wants, want{rel, e.data})
			if int64(len(e.data)) != e.declared {
				contentOK = false
			}
		}
	}
	cf, cerr := CheckZip(vMod, zipPath)
	uerr := Unzip(dir, vMod, zipPath)
	vAssert("nothing-created-outside-target", vFSAllInside(dir))
	if allOK {
		vReach("reference-accepts-names")
	} else {
		vReach("reference-rejects-names")
	}
	if allOK && sizeOK {
		vAssert("checkzip-accepts-valid-archive", cerr == nil && len(cf.Invalid) == 0 && cf.SizeError == nil)
	}
	if !allOK {
		vAssert("checkzip-rejects-invalid-entry", cerr != nil && len(cf.Invalid) > 0)
	}
	if allOK && !sizeOK {
		vAssert("checkzip-rejects-oversize", cerr != nil && cf.SizeError != nil)
	}
	// extraction succeeds exactly when the check accepts and contents match their declarations
	if cerr != nil {
		vAssert("unzip-fails-when-check-fails", uerr != nil)
	}
	if uerr == nil {
		vReach("extracted")
		vAssert("unzip-success=>check-accepts", cerr == nil && allOK && sizeOK)
		vAssert("unzip-success=>sizes-match", contentOK)
		rels, got := vFSFiles(dir)
		vAssert("tree-has-exactly-the-file-entries", len(rels) == len(wants) && vPermEqZ(len(wants), func(i, j int) bool {
			return vAnd(wants[i].rel == rels[j], string(wants[i].data) == string(got[j]))
		}))
	} else {
		vReach("refused")
		if cerr == nil {
			vAssert("accepted-archive-fails-only-on-size-mismatch", !contentOK)
		}
	}
}

// vPermEqZ: multiset equality helper (as in the modfile harnesses).
func vPermEqZ(n int, eq func(i, j int) bool) bool {
	used := make([]bool, n)
	var rec func(i int) bool
	rec = func(i int) bool {
		if i == n {
			return true
		}
		res := false
		for j := 0; j < n; j++ {
			if used[j] {
				continue
			}
			used[j] = true
			res = vOr(res, vAnd(eq(i, j), rec(i+1)))
			used[j] = false
		}
		return res
	}
	return rec(0)
}

// VerifC12NonEmpty: a non-empty target directory is refused and left alone.
func VerifC12NonEmpty() {
	zipPath := vFSTempDir("in.zip")
	dir := vFSTempDir("out")
	defer vFSCleanup()
	vFSPutZip(zipPath, []string{vPrefix + "f.go"}, []int64{1}, [][]byte{[]byte("a")}, []bool{false})
	vFSPutFile(dir+"/existing"+vSym("n", 1, `[a-z]`), []byte("x"))
	err := Unzip(dir, vMod, zipPath)
	vReach("nonempty")
	vAssert("non-empty-target-refused", err != nil)
	rels, _ := vFSFiles(dir)
	vAssert("non-empty-target-untouched", len(rels) == 1)
}

func VerifC12Twin() {
	e := vGenEntry("e0")
	zipPath := vFSTempDir("in.zip")
	dir := vFSTempDir("out")
	defer vFSCleanup()
	vFSPutZip(zipPath, []string{e.name}, []int64{e.declared}, [][]byte{e.data}, []bool{false})
	err := Unzip(dir, vMod, zipPath)
	rels, _ := vFSFiles(dir)
	vAssume(err == nil && len(rels) == 1)
	vAssert("twin", false)
}

// ---- C05: create, then check and extract ----

// VerifC05Create: whenever Create succeeds the archive passes CheckZip with no
// invalid entries, extracts without error to exactly the files CheckFiles
// reports valid, byte for byte; Create succeeds exactly when CheckFiles
// reports no error (sizes matching contents).
func VerifC05Create() {
	var files []File
	var vfs []vF
	if k := vChoice("gomod", 3); k > 0 {
		f := vF{name: "go.mod", mode: 0644, size: int64(len(vGoMods[k])), data: []byte(vGoMods[k])}
		files, vfs = append(files, f), append(vfs, f)
	}
	n := 1 + vChoice("nfiles", vParam("maxfiles", 2))
	for i := 0; i < n; i++ {
		tag := "f" + string(rune('0'+i))
		var name string
		if vParam("skel", 0) == 1 {
			// layout skeletons with a symbolic first-letter case (collisions, file/directory clashes)
			name = vSkelPath(tag)
		} else {
			tail := vString(tag+".tail", vChoice(tag+".len", vParam("maxtail", 2)+1))
			vAssume(vMatch(`^[\x00-\x7f]*$`, tail))
			name = vPrefixes[vChoice(tag+".prefix", vParam("prefixes", 4))] + tail
		}
		data := vContents[1]
		if vParam("skel", 0) == 0 {
			data = vContents[vChoice(tag+".content", len(vContents))]
		}
		f := vF{name: name, mode: vModes[vChoice(tag+".mode", vParam("modes", 2))], size: int64(len(data)), data: data}
		files, vfs = append(files, f), append(vfs, f)
	}
	cf, cfErr := CheckFiles(files)
	var buf bytes.Buffer
	err := Create(&buf, vMod, files)
	vAssert("create-succeeds-iff-checkfiles-clean", (err == nil) == (cfErr == nil))
	if err != nil {
		vReach("create-refused")
		return
	}
	vReach("created")
	zipPath := vFSTempDir("made.zip")
	dir := vFSTempDir("out")
	defer vFSCleanup()
	vFSPutFile(zipPath, buf.Bytes())
	zcf, zerr := CheckZip(vMod, zipPath)
	vAssert("created-archive-passes-checkzip", zerr == nil && len(zcf.Invalid) == 0 && zcf.SizeError == nil)
	uerr := Unzip(dir, vMod, zipPath)
	vAssert("created-archive-extracts", uerr == nil)
	vAssert("nothing-created-outside-target", vFSAllInside(dir))
	if uerr != nil {
		return
	}
	rels, got := vFSFiles(dir)
	// exactly the files reported valid, byte for byte
	type want struct {
		rel  string
		data []byte
	}
	var wants []want
	for _, p := range cf.Valid {
		for _, f := range vfs {
			if f.name == p && f.mode.IsRegular() {
				wants = append(wants, want{p, f.data})
				break
			}
		}
	}
	vAssert("valid-files-resolved", len(wants) == len(cf.Valid))
	vAssert("extracted-tree==valid-files", len(rels) == len(wants) && vPermEqZ(len(wants), func(i, j int) bool {
		return vAnd(wants[i].rel == rels[j], string(wants[i].data) == string(got[j]))
	}))
	// documented restrictions on every archive entry
	var reg []vName
	for _, name := range zcf.Valid {
		ok, isFile, _, nm := vRefEntryOK(vEntry{name: name, declared: 0}, reg)
		reg = append(reg, nm...)
		vAssert("archive-entry-obeys-restrictions", ok && isFile)
	}
	vAssert("archive-lists-every-valid-file", len(zcf.Valid) == len(cf.Valid))
}

func VerifC05Twin() {
	f := vF{name: "a.go", mode: 0644, size: 1, data: []byte("a")}
	var buf bytes.Buffer
	err := Create(&buf, vMod, []File{f})
	vAssume(err == nil)
	zipPath := vFSTempDir("made.zip")
	dir := vFSTempDir("out")
	defer vFSCleanup()
	vFSPutFile(zipPath, buf.Bytes())
	vAssume(Unzip(dir, vMod, zipPath) == nil)
	vAssert("twin", false)
}
