//go:build verif

package zip

import (
	"bytes"
	"io"
	"os"
	"path"
	"strings"
	"time"

	"golang.org/x/mod/module"
)

func init() {
	vRegister("C17One", VerifC17One)
	vRegister("C17Two", VerifC17Two)
	vRegister("C17Nested", VerifC17Nested)
	vRegister("C17Twin", VerifC17Twin)
}

// ---- File double ----

type vF struct {
	name    string
	mode    os.FileMode
	size    int64
	data    []byte
	statErr bool
}

func (f vF) Path() string { return f.name }
func (f vF) Lstat() (os.FileInfo, error) {
	if f.statErr {
		return nil, os.ErrNotExist
	}
	return vFI{f}, nil
}
func (f vF) Open() (io.ReadCloser, error) { return io.NopCloser(bytes.NewReader(f.data)), nil }

type vFI struct{ f vF }

func (i vFI) Name() string       { return path.Base(i.f.name) }
func (i vFI) Size() int64        { return i.f.size }
func (i vFI) Mode() os.FileMode  { return i.f.mode }
func (i vFI) ModTime() time.Time { return time.Time{} }
func (i vFI) IsDir() bool        { return i.f.mode.IsDir() }
func (i vFI) Sys() interface{}   { return nil }

var vModes = []os.FileMode{0644, os.ModeDir | 0755, os.ModeSymlink | 0777, os.ModeDevice | 0600}

// root go.mod variants: absent, go 1.23, go 1.24, unparsable
var vGoMods = []string{"", "module m\n\ngo 1.23\n", "module m\n\ngo 1.24\n", "module m\n\ngo 1.24 extra tokens (\n"}

func vRootGoMod(k int) (files []File, go124 bool) {
	if k == 0 {
		return nil, false
	}
	return []File{vF{name: "go.mod", mode: 0644, size: int64(len(vGoMods[k])), data: []byte(vGoMods[k])}}, k == 2
}

// ---- reference classifier, written from the package documentation ----

const (
	vValid   = 0
	vOmitted = 1
	vInvalid = 2
)

// vRefClean: a path is clean when it has no empty, "." or removable ".."
// elements and no trailing slash (the documented "clean" form).
func vRefClean(p string) bool {
	if p == "" {
		return false
	}
	if p == "/" || p == "." {
		return true
	}
	rooted := p[0] == '/'
	rest := p
	if rooted {
		rest = p[1:]
	}
	elems := strings.Split(rest, "/")
	leadingDotDot := !rooted
	for _, e := range elems {
		switch e {
		case "", ".":
			return false
		case "..":
			if !leadingDotDot {
				return false
			}
		default:
			leadingDotDot = false
		}
	}
	return true
}

func vRefVendored(p string, go124 bool) bool {
	if go124 && p == "vendor/modules.txt" {
		return true
	}
	var rest string
	if strings.HasPrefix(p, "vendor/") {
		rest = p[len("vendor/"):]
	} else if j := strings.Index(p, "/vendor/"); j >= 0 {
		if go124 {
			rest = p[j+len("/vendor/"):]
		} else {
			// historical behaviour kept for checksums of pre-1.24 modules
			rest = p[len("/vendor/"):]
		}
	} else {
		return false
	}
	return strings.Contains(rest, "/")
}

// vRefInSubmodule: some proper ancestor directory of p holds a regular go.mod (any case).
func vRefInSubmodule(p string, files []vF) bool {
	for _, f := range files {
		dir, base := path.Split(f.name)
		if dir == "" || !strings.EqualFold(base, "go.mod") || f.statErr || !f.mode.IsRegular() {
			continue
		}
		// p lies strictly below dir
		if len(p) > len(dir) && p[:len(dir)] == dir {
			return true
		}
	}
	return false
}

type vName struct {
	path  string
	isDir bool
}

func vNamesOf(p string, isDir bool) []vName {
	out := []vName{{p, isDir}}
	for d := path.Dir(p); d != "."; d = path.Dir(d) {
		out = append(out, vName{d, true})
		if d == "/" {
			break
		}
	}
	return out
}

// vRefCollides: does adding (p, isDir) clash with the names already registered?
func vRefCollides(reg []vName, p string, isDir bool) bool {
	for _, n := range vNamesOf(p, isDir) {
		for _, o := range reg {
			if !strings.EqualFold(o.path, n.path) {
				continue
			}
			if o.path != n.path || o.isDir != n.isDir || !n.isDir {
				return true
			}
		}
	}
	return false
}

// vRefClass classifies file i of the list given the names registered by the
// files before it; it returns the class and whether the file registers its names.
func vRefClass(files []vF, i int, go124 bool, reg []vName) (class int, registers bool) {
	f := files[i]
	p := f.name
	switch {
	case !vRefClean(p), strings.HasPrefix(p, "/"):
		return vInvalid, false
	case vRefVendored(p, go124), vRefInSubmodule(p, files), p == ".hg_archival.txt":
		return vOmitted, false
	case module.CheckFilePath(p) != nil:
		return vInvalid, false
	case strings.ToLower(p) == "go.mod" && p != "go.mod":
		return vInvalid, false
	case f.statErr:
		return vInvalid, false
	}
	if vRefCollides(reg, p, f.mode.IsDir()) {
		// names up to the clashing one are registered by the implementation too,
		// but a clash makes the entry invalid in any case
		return vInvalid, true
	}
	if !f.mode.IsRegular() {
		return vOmitted, true
	}
	if p == "go.mod" && f.size > MaxGoMod || p == "LICENSE" && f.size > MaxLICENSE {
		return vInvalid, true
	}
	return vValid, true
}

func vCount(list []string, p string) int {
	n := 0
	for _, x := range list {
		if x == p {
			n++
		}
	}
	return n
}

func vCountErr(list []FileError, p string) int {
	n := 0
	for _, x := range list {
		if x.Path == p {
			n++
		}
	}
	return n
}

// VerifC17One: one file with an arbitrary path, mode and size (plus an
// optional root go.mod of each go-version class) lands in exactly one list,
// the one the documented rules name.
func VerifC17One() {
	root, go124 := vRootGoMod(vChoice("gomod", len(vGoMods)))
	tail := vString("path", vChoice("len", vParam("maxlen", 6)+1))
	vAssume(vMatch(`^[\x00-\x7f]*$`, tail))
	p := vPrefixes[vChoice("prefix", vParam("prefixes", 1))] + tail
	mode := vModes[vChoice("mode", len(vModes))]
	size := vInt64("size")
	f := vF{name: p, mode: mode, size: size, statErr: vChoice("staterr", 2) == 1}
	// a nested module marker, so that paths under sub/ are submodule files
	sub := vF{name: "sub/go.mod", mode: 0644, size: 9}
	var all []vF
	if len(root) > 0 {
		all = append(all, root[0].(vF))
	}
	all = append(all, sub, f)
	var files []File
	for _, x := range all {
		files = append(files, x)
	}
	cf, err := CheckFiles(files)
	if p == "sub/go.mod" {
		return
	}
	var reg []vName
	if len(root) > 0 {
		reg = vNamesOf("go.mod", false)
	}
	// sub/go.mod itself is a submodule file: omitted, registers nothing
	want, _ := vRefClass(all, len(all)-1, go124, reg)
	nv, no, ni := vCount(cf.Valid, p), vCountErr(cf.Omitted, p), vCountErr(cf.Invalid, p)
	if p == "go.mod" && len(root) > 0 {
		// listed twice as a regular file: valid once and invalid once ("multiple entries")
		vAssert("exactly-one-list", nv+no+ni == 2 && nv <= 1)
		return
	}
	vAssert("exactly-one-list", nv+no+ni == 1)
	switch want {
	case vValid:
		vReach("valid")
		vAssert("class==documented:valid", nv == 1)
	case vOmitted:
		vReach("omitted")
		vAssert("class==documented:omitted", no == 1)
	case vInvalid:
		vReach("invalid")
		vAssert("class==documented:invalid", ni == 1)
	}
	// the error result is set exactly when something is invalid or the size limit is exceeded
	sizeErr := want == vValid && (size < 0 || size > MaxZipFile-int64(len(vGoMods[0]))) // refined below
	_ = sizeErr
	vAssert("err==invalid-or-size", (err != nil) == (len(cf.Invalid) > 0 || cf.SizeError != nil))
	if want == vValid || (want == vInvalid && ni == 1 && (p == "go.mod" || p == "LICENSE") && mode.IsRegular()) {
		rootSize := int64(0)
		if len(root) > 0 {
			rootSize = root[0].(vF).size
		}
		over := size < 0 || size > MaxZipFile-rootSize
		if want == vValid {
			vAssert("size-error==over-limit", (cf.SizeError != nil) == over)
		}
	}
}

var vPrefixes = []string{"", "vendor/", "a/vendor/", "sub/", "vendor/a/", "Sub/"}

var vDirs = []string{"", "d/", "vendor/", "sub/", "ſrc/", "src/", "ſrC/", "d/vendor/", "sub/d/"}
var vBases = []string{"f.go", "go.mod", "d", "modules.txt", "GO.MOD", "x/y.go", "sub", "LICENSE"}

// vSkelPath builds dir+base from the skeleton lists, with the case of the first
// letter of the directory and of the base symbolic.
func vSkelPath(tag string) string {
	d := vDirs[vChoice(tag+".dir", vParam("dirs", len(vDirs)))]
	b := vBases[vChoice(tag+".base", vParam("bases", len(vBases)))]
	p := d + b
	first := tag == "e0" || tag == "f0" || tag == "a"
	if len(d) > 0 && p[0] < 0x80 && !(first && vParam("symcase0", 1) == 0) && vChoice(tag+".symcase", 2) == 1 {
		// first letter of the path in either case, decided by the solver
		c := vSym(tag+".case", 1, `[a-zA-Z]`)
		vAssume(strings.EqualFold(c, p[:1]))
		p = c + p[1:]
	}
	return p
}

// VerifC17Two: two files from the layout skeletons (vendor, nested module,
// case variants, file/directory clashes, duplicates), both list orders: each
// distinct path lands in exactly one list and in the documented one.
func VerifC17Two() {
	root, go124 := vRootGoMod(vChoice("gomod", 3))
	a := vF{name: vSkelPath("a"), mode: vModes[vChoice("a.mode", vParam("modes", 3))], size: 10}
	b := vF{name: vSkelPath("b"), mode: vModes[vChoice("b.mode", vParam("modes", 3))], size: 10}
	var all []vF
	if len(root) > 0 {
		all = append(all, root[0].(vF))
	}
	all = append(all, a, b)
	var files []File
	for _, f := range all {
		files = append(files, f)
	}
	cf, _ := CheckFiles(files)
	// when several regular root go.mod entries are listed the last one sets the go version
	for _, f := range all {
		if f.name == "go.mod" && f.mode.IsRegular() {
			go124 = string(f.data) == vGoMods[2]
		}
	}
	var reg []vName
	for i, f := range all {
		want, registers := vRefClass(all, i, go124, reg)
		if registers {
			reg = append(reg, vNamesOf(f.name, f.mode.IsDir())...)
		}
		dup := false
		for j := range all {
			if j != i && all[j].name == f.name {
				dup = true
			}
		}
		if dup {
			vReach("duplicate-path")
			continue
		}
		nv, no, ni := vCount(cf.Valid, f.name), vCountErr(cf.Omitted, f.name), vCountErr(cf.Invalid, f.name)
		vAssert("exactly-one-list", nv+no+ni == 1)
		switch want {
		case vValid:
			vReach("valid")
			vAssert("class==documented:valid", nv == 1)
		case vOmitted:
			vReach("omitted")
			vAssert("class==documented:omitted", no == 1)
		case vInvalid:
			vReach("invalid")
			vAssert("class==documented:invalid", ni == 1)
		}
	}
}

var vNestedRoots = []string{"sub/go.mod", "sub/a/go.mod", "sub/b/go.mod", "other/go.mod", "sub/a/deep/GO.MOD"}
var vNestedDirs = []string{"", "sub/", "sub/a/", "sub/b/", "sub/c/", "sub/a/x/", "sub/z/", "other/y/", "suba/"}

// VerifC17Nested: nested modules inside nested modules, sibling nested
// modules, and files around them: a file is omitted exactly when some proper
// ancestor directory holds a go.mod, whatever the order of the list.
func VerifC17Nested() {
	var all []vF
	for _, r := range vNestedRoots {
		if vChoice("have."+r, 2) == 1 {
			all = append(all, vF{name: r, mode: 0644, size: 9})
		}
	}
	name := vNestedDirs[vChoice("dir", len(vNestedDirs))] + vSym("file", 1+vChoice("filelen", 2), `[a-z]`) + ".go"
	x := vF{name: name, mode: 0644, size: 5}
	if vChoice("first", 2) == 1 {
		all = append([]vF{x}, all...)
	} else {
		all = append(all, x)
	}
	var files []File
	for _, f := range all {
		files = append(files, f)
	}
	cf, _ := CheckFiles(files)
	nested := false
	for _, f := range all {
		dir, base := path.Split(f.name)
		if dir != "" && strings.EqualFold(base, "go.mod") && strings.HasPrefix(name, dir) {
			nested = true
		}
	}
	nv, no, ni := vCount(cf.Valid, name), vCountErr(cf.Omitted, name), vCountErr(cf.Invalid, name)
	vAssert("exactly-one-list", nv+no+ni == 1)
	if nested {
		vReach("nested-file")
		vAssert("file-in-nested-module-omitted", no == 1)
	} else {
		vReach("own-file")
		vAssert("own-file-valid", nv == 1)
	}
	// the nested go.mod files themselves are omitted
	for _, f := range all {
		if f.name != name {
			vAssert("nested-gomod-omitted", vCountErr(cf.Omitted, f.name) == 1 && vCount(cf.Valid, f.name) == 0)
		}
	}
}

func VerifC17Twin() {
	p := vString("path", 4)
	vAssume(vMatch(`^[\x00-\x7f]*$`, p))
	cf, err := CheckFiles([]File{vF{name: p, mode: 0644, size: 1}})
	vAssume(err == nil && len(cf.Valid) == 1)
	vAssert("twin", false)
}

func init() {
	vRegister("C17Dir", VerifC17Dir)
}

var vTreeDirsZ = []string{"", "d/", "vendor/", "vendor/a/", "d/vendor/b/", "sub/", "sub/vendor/"}

// VerifC17Dir: for a directory tree of regular files (no VCS metadata
// directories), creating from the directory and creating from the list of its
// files succeed or fail together and include the same files with the same
// content; the directory check and the list check report the same valid and
// invalid files.
func VerifC17Dir() {
	defer vFSCleanup()
	root := vFSTempDir("tree")
	var all []vF
	if k := vChoice("gomod", 3); k > 0 {
		all = append(all, vF{name: "go.mod", mode: 0644, size: int64(len(vGoMods[k])), data: []byte(vGoMods[k])})
	}
	if vChoice("nested", 2) == 1 {
		all = append(all, vF{name: "sub/go.mod", mode: 0644, size: 9, data: []byte("module s\n")})
	}
	n := 1 + vChoice("nfiles", vParam("maxfiles", 2))
	for i := 0; i < n; i++ {
		rel := vTreeDirsZ[vChoice("dir", len(vTreeDirsZ))] + vSym("name", 1+vChoice("namelen", 2), `[a-zA-Z.]`) + vTreeExts[vChoice("ext", len(vTreeExts))]
		for _, o := range all {
			// a real tree: no duplicate paths, no file that is also a directory
			vAssume(o.name != rel)
			vAssume(!strings.HasPrefix(o.name, rel+"/") && !strings.HasPrefix(rel, o.name+"/"))
		}
		// names the file system itself would refuse or normalise are not part of a real tree
		vAssume(!strings.HasSuffix(rel, "/.") && !strings.HasSuffix(rel, "/..") && rel != "." && rel != "..")
		vAssume(!strings.Contains(rel, "/./") && !strings.Contains(rel, "/../"))
		data := vContents[vChoice("content", len(vContents))]
		all = append(all, vF{name: rel, mode: 0644, size: int64(len(data)), data: data})
	}
	var files []File
	for _, f := range all {
		files = append(files, f)
		vFSPutFile(root+"/"+f.name, f.data)
	}
	// the two checks
	lcf, _ := CheckFiles(files)
	dcf, derr := CheckDir(root)
	vReach("checked")
	vAssert("checkdir-walks", derr == nil || len(dcf.Invalid) > 0 || dcf.SizeError != nil)
	vAssert("same-valid-files", len(lcf.Valid) == len(dcf.Valid) && vPermEqZ(len(lcf.Valid), func(i, j int) bool { return root+"/"+lcf.Valid[i] == dcf.Valid[j] }))
	vAssert("same-invalid-files", len(lcf.Invalid) == len(dcf.Invalid) && vPermEqZ(len(lcf.Invalid), func(i, j int) bool { return root+"/"+lcf.Invalid[i].Path == dcf.Invalid[j].Path }))
	// the two ways of creating
	var b1, b2 bytes.Buffer
	e1 := Create(&b1, vMod, files)
	e2 := CreateFromDir(&b2, vMod, root)
	vAssert("create-and-createfromdir-agree", (e1 == nil) == (e2 == nil))
	if e1 != nil || e2 != nil {
		vReach("create-refused")
		return
	}
	vReach("created-both")
	z1, z2 := vFSTempDir("list.zip"), vFSTempDir("dir.zip")
	vFSPutFile(z1, b1.Bytes())
	vFSPutFile(z2, b2.Bytes())
	o1, o2 := vFSTempDir("out1"), vFSTempDir("out2")
	vAssert("list-archive-extracts", Unzip(o1, vMod, z1) == nil)
	vAssert("dir-archive-extracts", Unzip(o2, vMod, z2) == nil)
	r1, d1 := vFSFiles(o1)
	r2, d2 := vFSFiles(o2)
	vAssert("same-files-same-content", len(r1) == len(r2) && vPermEqZ(len(r1), func(i, j int) bool {
		return vAnd(r1[i] == r2[j], string(d1[i]) == string(d2[j]))
	}))
}

var vTreeExts = []string{".go", "", ".txt"}
