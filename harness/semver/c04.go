//go:build verif

package semver

func init() {
	vRegister("C04Valid", VerifC04Valid)
	vRegister("C04ValidTwin", VerifC04ValidTwin)
	vRegister("C04Parts", VerifC04Parts)
	vRegister("C04Compare", VerifC04Compare)
	vRegister("C04Order", VerifC04Order)
	vRegister("C04Long", VerifC04Long)
	vRegister("C04Sort", VerifC04Sort)
	vRegister("C04Tail", VerifC04Tail)
	vRegister("C04ComparePre", VerifC04ComparePre)
	vRegister("C04OrderPre", VerifC04OrderPre)
}

const vNumRE = `(0|[1-9][0-9]*)`
const vIdRE = `(0|[1-9][0-9]*|[0-9]*[A-Za-z-][0-9A-Za-z-]*)`
const vSemverRE = `^v` + vNumRE + `(\.` + vNumRE + `(\.` + vNumRE + `(-` + vIdRE + `(\.` + vIdRE + `)*)?(\+[0-9A-Za-z-]+(\.[0-9A-Za-z-]+)*)?)?)?$`

// VerifC04Valid: a string is valid exactly when it matches the documented grammar.
func VerifC04Valid() {
	n := vChoice("len", vParam("maxlen", 6)+1)
	v := vString("v", n)
	ok := IsValid(v)
	if ok {
		vReach("valid")
	} else {
		vReach("invalid")
	}
	vAssert("valid==grammar", ok == vMatch(vSemverRE, v))
}

// Reachability witness for the harnesses of this file.
func VerifC04ValidTwin() {
	n := vChoice("len", vParam("maxlen", 6)+1)
	v := vString("v", n)
	ok := IsValid(v)
	vAssume(ok)
	vAssert("twin", false)
}

// vRefParts splits a grammar-valid version using only separator positions.
func vRefParts(v string) (major, minor, patch, pre, build string, fields int) {
	rest := v[1:]
	for i := 0; i < len(rest); i++ {
		if rest[i] == '+' {
			build = rest[i:]
			rest = rest[:i]
			break
		}
	}
	for i := 0; i < len(rest); i++ {
		if rest[i] == '-' {
			pre = rest[i:]
			rest = rest[:i]
			break
		}
	}
	var f [3]string
	k := 0
	start := 0
	for i := 0; i <= len(rest); i++ {
		if i == len(rest) || rest[i] == '.' {
			if k < 3 {
				f[k] = rest[start:i]
			}
			k++
			start = i + 1
		}
	}
	major, minor, patch = f[0], "0", "0"
	if k > 1 {
		minor = f[1]
	}
	if k > 2 {
		patch = f[2]
	}
	return major, minor, patch, pre, build, k
}

// VerifC04Parts: every accessor returns the corresponding part, "" for invalid strings.
func VerifC04Parts() {
	n := vChoice("len", vParam("maxlen", 6)+1)
	v := vString("v", n)
	if !vMatch(vSemverRE, v) {
		vReach("invalid")
		vAssert("invalid:Major", Major(v) == "")
		vAssert("invalid:MajorMinor", MajorMinor(v) == "")
		vAssert("invalid:Canonical", Canonical(v) == "")
		vAssert("invalid:Prerelease", Prerelease(v) == "")
		vAssert("invalid:Build", Build(v) == "")
		return
	}
	vReach("valid")
	major, minor, patch, pre, build, _ := vRefParts(v)
	vAssert("Major", Major(v) == "v"+major)
	vAssert("MajorMinor", MajorMinor(v) == "v"+major+"."+minor)
	canon := "v" + major + "." + minor + "." + patch + pre
	vAssert("Canonical", Canonical(v) == canon)
	vAssert("Prerelease", Prerelease(v) == pre)
	vAssert("Build", Build(v) == build)
	vAssert("Canonical-idempotent", Canonical(canon) == canon)
	vAssert("Canonical-valid", IsValid(canon))
}

func vIsNum(s string) bool {
	if s == "" {
		return false
	}
	for i := 0; i < len(s); i++ {
		if s[i] < '0' || s[i] > '9' {
			return false
		}
	}
	return true
}

// vNumVal: value of a short decimal string (callers keep it under 19 digits).
func vNumVal(s string) uint64 {
	var x uint64
	for i := 0; i < len(s); i++ {
		x = x*10 + uint64(s[i]-'0')
	}
	return x
}

func vCmpU(a, b uint64) int {
	if a < b {
		return -1
	}
	if a > b {
		return 1
	}
	return 0
}

// vRefComparePre applies SemVer 2.0.0 §11.4 literally.
func vRefComparePre(x, y string) int {
	if x == y {
		return 0
	}
	if x == "" {
		return 1
	}
	if y == "" {
		return -1
	}
	x, y = x[1:], y[1:]
	for {
		// cut next identifiers
		i := 0
		for i < len(x) && x[i] != '.' {
			i++
		}
		j := 0
		for j < len(y) && y[j] != '.' {
			j++
		}
		dx, dy := x[:i], y[:j]
		if dx != dy {
			nx, ny := vIsNum(dx), vIsNum(dy)
			if nx && ny {
				return vCmpU(vNumVal(dx), vNumVal(dy))
			}
			if nx {
				return -1
			}
			if ny {
				return 1
			}
			if dx < dy {
				return -1
			}
			return 1
		}
		xEnd, yEnd := i == len(x), j == len(y)
		if xEnd && yEnd {
			return 0
		}
		if xEnd {
			return -1
		}
		if yEnd {
			return 1
		}
		x, y = x[i+1:], y[j+1:]
	}
}

func vRefCompare(v, w string) int {
	okv, okw := vMatch(vSemverRE, v), vMatch(vSemverRE, w)
	if !okv {
		if !okw {
			return 0
		}
		return -1
	}
	if !okw {
		return 1
	}
	a1, a2, a3, ap, _, _ := vRefParts(v)
	b1, b2, b3, bp, _, _ := vRefParts(w)
	if c := vCmpU(vNumVal(a1), vNumVal(b1)); c != 0 {
		return c
	}
	if c := vCmpU(vNumVal(a2), vNumVal(b2)); c != 0 {
		return c
	}
	if c := vCmpU(vNumVal(a3), vNumVal(b3)); c != 0 {
		return c
	}
	return vRefComparePre(ap, bp)
}

// VerifC04Compare: Compare equals SemVer precedence with numeric fields compared by value.
func VerifC04Compare() {
	max := vParam("maxlen", 4)
	n := vChoice("lenv", max+1)
	m := vChoice("lenw", max+1)
	v := vString("v", n)
	w := vString("w", m)
	got := Compare(v, w)
	want := vRefCompare(v, w)
	if want == 0 {
		vReach("equal")
	} else {
		vReach("ordered")
	}
	vAssert("Compare==reference", got == want)
}

// VerifC04Order: Compare is a total preorder and 0 exactly on equal canonical forms.
func VerifC04Order() {
	max := vParam("maxlen", 3)
	u := vString("u", vChoice("lenu", max+1))
	v := vString("v", vChoice("lenv", max+1))
	w := vString("w", vChoice("lenw", max+1))
	uv, vw, uw, vu := Compare(u, v), Compare(v, w), Compare(u, w), Compare(v, u)
	vAssert("reflexive", Compare(u, u) == 0)
	vAssert("antisymmetric", uv == -vu)
	if uv <= 0 && vw <= 0 {
		vReach("chain")
		vAssert("transitive", uw <= 0)
		if uv < 0 || vw < 0 {
			vAssert("transitive-strict", uw < 0)
		}
	}
	vAssert("zero-iff-canonical", (uv == 0) == (Canonical(u) == Canonical(v)))
}

func vAllDigits(s string) bool {
	ok := true
	for i := 0; i < len(s); i++ {
		ok = vAnd(ok, vAnd(s[i] >= '0', s[i] <= '9'))
	}
	return ok
}

// VerifC04Long: numeric fields far beyond 64 bits are compared numerically.
func VerifC04Long() {
	lo := vParam("minDigits", 20)
	span := vParam("span", 3)
	nx := lo + vChoice("nx", span)
	ny := lo + vChoice("ny", span)
	x := vString("x", nx)
	y := vString("y", ny)
	vAssume(vAnd(vAllDigits(x), vAllDigits(y)))
	vAssume(vAnd(x[0] != '0', y[0] != '0'))
	// numeric order of two decimal strings without leading zeros
	want := 0
	if len(x) < len(y) {
		want = -1
	} else if len(x) > len(y) {
		want = 1
	} else if x < y {
		want = -1
	} else if x > y {
		want = 1
	}
	where := vChoice("where", 4)
	var v, w string
	switch where {
	case 0:
		v, w = "v"+x, "v"+y
	case 1:
		v, w = "v1."+x, "v1."+y
	case 2:
		v, w = "v1.2."+x, "v1.2."+y
	case 3:
		v, w = "v1.2.3-a."+x, "v1.2.3-a."+y
	}
	vReach("long")
	vAssert("long-valid", vAnd(IsValid(v), IsValid(w)))
	vAssert("long-compare", Compare(v, w) == want)
	vAssert("long-antisymmetric", Compare(w, v) == -want)
}

// VerifC04Sort: Sort yields a permutation ordered by Compare, then by string.
func VerifC04Sort() {
	max := vParam("maxlen", 3)
	k := 2 + vChoice("k", vParam("maxlist", 3)-1)
	in := make([]string, k)
	for i := range in {
		in[i] = vString("s", vChoice("len", max+1))
	}
	out := append([]string(nil), in...)
	Sort(out)
	for i := 0; i+1 < len(out); i++ {
		c := Compare(out[i], out[i+1])
		vAssert("sorted", c <= 0)
		if c == 0 {
			vAssert("tie-by-string", out[i] <= out[i+1])
		}
	}
	// permutation: some bijection maps out onto in
	perm := false
	if k == 2 {
		perm = vOr(vAnd(out[0] == in[0], out[1] == in[1]), vAnd(out[0] == in[1], out[1] == in[0]))
	} else {
		idx := [6][3]int{{0, 1, 2}, {0, 2, 1}, {1, 0, 2}, {1, 2, 0}, {2, 0, 1}, {2, 1, 0}}
		for _, p := range idx {
			perm = vOr(perm, vAnd(out[0] == in[p[0]], vAnd(out[1] == in[p[1]], out[2] == in[p[2]])))
		}
	}
	vReach("sorted")
	vAssert("permutation", perm)
}

var vPrefixes = []string{"v1.0.0-", "v1.0.0+", "v1.2.", "v1.", "v1.0.0-a.", "v1.0.0-1+", "v0.0.0-0."}

// VerifC04Tail: grammar and accessors on a fixed valid prefix followed by an
// arbitrary tail, so that prerelease and build syntax is reached at depth.
func VerifC04Tail() {
	p := vPrefixes[vChoice("prefix", len(vPrefixes))]
	t := vString("tail", vChoice("len", vParam("maxtail", 5)+1))
	v := p + t
	ok := IsValid(v)
	vAssert("valid==grammar", ok == vMatch(vSemverRE, v))
	if !ok {
		vReach("invalid")
		vAssert("invalid:Canonical", Canonical(v) == "")
		vAssert("invalid:Prerelease", Prerelease(v) == "")
		vAssert("invalid:Build", Build(v) == "")
		return
	}
	vReach("valid")
	major, minor, patch, pre, build, _ := vRefParts(v)
	canon := "v" + major + "." + minor + "." + patch + pre
	vAssert("Canonical", Canonical(v) == canon)
	vAssert("Prerelease", Prerelease(v) == pre)
	vAssert("Build", Build(v) == build)
	vAssert("MajorMinor", MajorMinor(v) == "v"+major+"."+minor)
	vAssert("Canonical-valid", IsValid(canon))
	vAssert("Compare-canonical", Compare(v, canon) == 0)
}

// VerifC04ComparePre: precedence of prerelease identifiers (numeric vs
// alphanumeric, numeric by value, prefix rule) against the SemVer reference.
func VerifC04ComparePre() {
	max := vParam("maxtail", 3)
	x := vString("x", vChoice("lenx", max+1))
	y := vString("y", vChoice("leny", max+1))
	v, w := "v1.0.0-"+x, "v1.0.0-"+y
	if vChoice("release", 4) == 0 {
		w = "v1.0.0" + y
	}
	got := Compare(v, w)
	want := vRefCompare(v, w)
	if want == 0 {
		vReach("equal")
	} else {
		vReach("ordered")
	}
	vAssert("Compare==reference", got == want)
}

// VerifC04OrderPre: order axioms on triples that differ in their prerelease.
func VerifC04OrderPre() {
	max := vParam("maxtail", 2)
	u := "v1.0.0-" + vString("u", vChoice("lenu", max+1))
	v := "v1.0.0-" + vString("v", vChoice("lenv", max+1))
	w := "v1.0.0-" + vString("w", vChoice("lenw", max+1))
	uv, vw, uw, vu := Compare(u, v), Compare(v, w), Compare(u, w), Compare(v, u)
	vAssert("antisymmetric", uv == -vu)
	if uv <= 0 && vw <= 0 {
		vReach("chain")
		vAssert("transitive", uw <= 0)
		if uv < 0 || vw < 0 {
			vAssert("transitive-strict", uw < 0)
		}
	}
	vAssert("zero-iff-canonical", (uv == 0) == (Canonical(u) == Canonical(v)))
}
