//go:build verif

package semver

func init() {
	vRegister("C04Valid", VerifC04Valid)
	vRegister("C04ValidTwin", VerifC04ValidTwin)
}

const vNumRE = `(0|[1-9][0-9]*)`
const vIdRE = `(0|[1-9][0-9]*|[0-9]*[A-Za-z-][0-9A-Za-z-]*)`
const vSemverRE = `^v` + vNumRE + `(\.` + vNumRE + `(\.` + vNumRE + `(-` + vIdRE + `(\.` + vIdRE + `)*)?(\+[0-9A-Za-z-]+(\.[0-9A-Za-z-]+)*)?)?)?$`

// VerifC04Valid: a string is valid exactly when it matches the documented grammar.
func VerifC04Valid() {
	n := vChoice("len", vParam("maxlen", 6)+1)
	v := vString("v", n)
	ok := IsValid(v)
	if ok {
		vReach("valid")
	} else {
		vReach("invalid")
	}
	vAssert("valid==grammar", ok == vMatch(vSemverRE, v))
}

func VerifC04ValidTwin() {
	n := vChoice("len", vParam("maxlen", 6)+1)
	v := vString("v", n)
	ok := IsValid(v)
	vAssume(ok)
	vAssert("twin", false)
}
