//go:build verif

package modfile

import (
	"strings"

	"golang.org/x/mod/module"
)

func init() {
	vRegister("C20Total", VerifC20Total)
	vRegister("C20TotalASCII", VerifC20TotalASCII)
	vRegister("C20Lax", VerifC20Lax)
	vRegister("C20GoLax", VerifC20GoLax)
	vRegister("C20ModulePath", VerifC20ModulePath)
	vRegister("C20Twin", VerifC20Twin)
}

func vCheckErrorList(data []byte, err error) {
	el, ok := err.(ErrorList)
	vAssert("error-is-ErrorList", ok && len(el) > 0)
	for _, e := range el {
		vAssert("no-internal-error", !strings.HasPrefix(e.Err.Error(), "internal error"))
		vAssert("error-position-consistent", vPosOK(data, e.Pos))
	}
}

// vTotal runs the three directive-level parsers on data: each returns either a
// result or an ErrorList with consistent positions; nothing panics (a panic
// escaping the harness is reported by the engine as a violation of no-panic).
func vTotal(data []byte) {
	f, err := Parse("go.mod", data, nil)
	if err != nil {
		vReach("strict-error")
		vAssert("strict-nil-on-error", f == nil)
		vCheckErrorList(data, err)
	} else {
		vReach("strict-ok")
		vAssert("strict-result", f != nil && f.Syntax != nil)
	}
	fl, errl := ParseLax("go.mod", data, nil)
	if errl != nil {
		vAssert("lax-nil-on-error", fl == nil)
		vCheckErrorList(data, errl)
	} else {
		vAssert("lax-result", fl != nil && fl.Syntax != nil)
	}
	if err == nil {
		vAssert("strict-accepted=>lax-accepted", errl == nil)
		if errl == nil {
			vAssert("lax-same-core-values", vSameCore(f, fl))
		}
	}
	w, errw := ParseWork("go.work", data, nil)
	if errw != nil {
		vAssert("work-nil-on-error", w == nil)
		vCheckErrorList(data, errw)
	} else {
		vAssert("work-result", w != nil && w.Syntax != nil)
	}
	_ = ModulePath(data)
}

// vSameCore: same module, go, require and retract values.
func vSameCore(a, b *File) bool {
	if (a.Module == nil) != (b.Module == nil) || (a.Go == nil) != (b.Go == nil) || len(a.Require) != len(b.Require) || len(a.Retract) != len(b.Retract) {
		return false
	}
	ok := true
	if a.Module != nil {
		ok = vAnd(ok, vAnd(vSameVersion(a.Module.Mod, b.Module.Mod), a.Module.Deprecated == b.Module.Deprecated))
	}
	if a.Go != nil {
		ok = vAnd(ok, a.Go.Version == b.Go.Version)
	}
	for i := range a.Require {
		ok = vAnd(ok, vAnd(vSameVersion(a.Require[i].Mod, b.Require[i].Mod), a.Require[i].Indirect == b.Require[i].Indirect))
	}
	for i := range a.Retract {
		ok = vAnd(ok, vAnd(a.Retract[i].Low == b.Retract[i].Low, vAnd(a.Retract[i].High == b.Retract[i].High, a.Retract[i].Rationale == b.Retract[i].Rationale)))
	}
	return ok
}

// VerifC20Total: every byte string up to maxlen through Parse, ParseLax,
// ParseWork and ModulePath.
func VerifC20Total() {
	data := vBytes("data", vChoice("len", vParam("maxlen", 3)+1))
	vTotal(data)
}

// VerifC20TotalASCII: "go "/"use "/"tool " followed by arbitrary ASCII, so that
// the directive layer is reached with arbitrary arguments.
func VerifC20TotalASCII() {
	prefixes := []string{"go ", "use ", "tool ", "godebug ", "toolchain ", "retract ", "module "}
	pre := prefixes[vChoice("prefix", len(prefixes))]
	tail := vString("tail", vChoice("len", vParam("maxlen", 3)+1))
	vAssume(vMatch(`^[\x00-\x7f]*$`, tail))
	vTotal([]byte(pre + tail))
}

// VerifC20Lax: on generated files, strict acceptance implies lax acceptance
// with the same module, go, require and retract values; the lax parser
// ignores unknown directives and unknown blocks.
func VerifC20Lax() {
	data := vGenFile(false)
	fix := vFixChoice()
	f, err := Parse("go.mod", data, fix)
	fl, errl := ParseLax("go.mod", data, fix)
	if err == nil {
		vReach("strict-accepted")
		vAssert("strict-accepted=>lax-accepted", errl == nil && fl != nil)
		if errl == nil {
			vAssert("lax-same-core-values", vSameCore(f, fl))
		}
	} else {
		vReach("strict-rejected")
	}
	// unknown directives and blocks appended to the file change nothing for the lax parser
	extra := append([]byte{}, data...)
	extra = append(extra, "frobnicate a b\nfrob (\n\tx y\n)\nfrob it (\n\tz\n)\n"...)
	fx, errx := ParseLax("go.mod", extra, fix)
	vAssert("lax-ignores-unknown:same-verdict", (errx == nil) == (errl == nil))
	if errx == nil && errl == nil {
		vReach("lax-accepted")
		vAssert("lax-ignores-unknown:same-values", vSameCore(fl, fx))
	}
	// the strict parser refuses them
	_, errs := Parse("go.mod", extra, fix)
	vAssert("strict-refuses-unknown", errs != nil)
}

// VerifC20GoLax: the lax parser's repair of go versions: accepted exactly for
// the documented shapes, and strict-valid versions are untouched.
func VerifC20GoLax() {
	v := vString("gover", 1+vChoice("len", vParam("maxlen", 5)))
	vAssume(vMatch(`^[0-9a-z.v-]*$`, v))
	data := []byte("module a.b/c\ngo " + v + "\n")
	f, err := Parse("go.mod", data, nil)
	fl, errl := ParseLax("go.mod", data, nil)
	strictOK := vMatch(`^([1-9][0-9]*)\.(0|[1-9][0-9]*)(\.(0|[1-9][0-9]*))?([a-z]+[0-9]+)?$`, v)
	vAssert("strict-go-version==documented-format", (err == nil) == strictOK)
	if err == nil {
		vReach("strict-go-ok")
		vAssert("strict-go-value", f.Go != nil && f.Go.Version == v)
		vAssert("lax-go-same", errl == nil && fl.Go != nil && fl.Go.Version == v)
		return
	}
	if errl == nil {
		vReach("lax-go-repaired")
		// repaired value is the leading major.minor of the text (after an optional v)
		vAssert("lax-go-repaired-is-prefix", fl.Go != nil && strings.HasPrefix(strings.TrimPrefix(v, "v"), fl.Go.Version))
		vAssert("lax-go-repaired-is-valid", vMatch(`^([1-9][0-9]*)\.(0|[1-9][0-9]*)$`, fl.Go.Version))
	} else {
		vReach("lax-go-rejected")
	}
}

// VerifC20ModulePath: the quick module-path extractor agrees with the strict
// parser on accepted files whose module directive is a single line naming a
// valid import path.
func VerifC20ModulePath() {
	n := vChoice("taillen", vParam("maxtail", 2)+1)
	var tok, want string
	switch vChoice("quote", 3) {
	case 0:
		t := vSym("bare", n, `[a-c./~+=-]`)
		tok, want = "a.b/"+t, "a.b/"+t
	case 1:
		t := vSym("quoted", n, `[a-c./ \\\\'=]`)
		tok = `"a.b/` + t + `"`
	case 2:
		t := vSym("raw", n, `[a-c./ "\\\\]`)
		tok, want = "`a.b/"+t+"`", "a.b/"+t
	}
	var sb []byte
	if vChoice("leading", 2) == 1 {
		sb = append(sb, "// comment\n\n"...)
	}
	sb = append(sb, "module"...)
	sb = append(sb, []string{" ", "\t", "  "}[vChoice("space", 3)]...)
	sb = append(sb, tok...)
	sb = append(sb, []string{"", " ", " // c", "\t//c"}[vChoice("trail", 4)]...)
	sb = append(sb, []string{"\n", "\r\n", ""}[vChoice("eol", 3)]...)
	if vChoice("rest", 2) == 1 {
		sb = append(sb, "\ngo 1.21\n\nrequire a.b/d v1.0.0\n"...)
	}
	f, err := Parse("go.mod", sb, nil)
	got := ModulePath(sb)
	if err != nil || f.Module == nil {
		vReach("module-rejected")
		return
	}
	if module.CheckImportPath(f.Module.Mod.Path) != nil {
		vReach("module-not-import-path")
		return
	}
	vReach("module-accepted")
	vAssert("ModulePath==Parse", got == f.Module.Mod.Path)
	if want != "" && !strings.Contains(tok, "//") {
		vAssert("module-path-is-token-text", f.Module.Mod.Path == want)
	}
}

func VerifC20Twin() {
	data := append([]byte("go "), vBytes("data", 3)...)
	f, err := ParseLax("go.mod", data, nil)
	vAssume(err == nil && f.Go != nil)
	vAssert("twin", false)
}
