//go:build verif

package modfile

import (
	"strings"

	"golang.org/x/mod/module"
)

func moduleVersion(p, v string) module.Version { return module.Version{Path: p, Version: v} }

func init() {
	vRegister("C15Mod", VerifC15Mod)
	vRegister("C15Work", VerifC15Work)
	vRegister("C08Mod", VerifC08Mod)
	vRegister("C08Work", VerifC08Work)
	vRegister("C15Twin", VerifC15Twin)
}

// ---- the keyed-collection model of a go.mod / go.work file (C08) ----

type vMReq struct {
	p, v    string
	ind     bool
	own     []string // texts of the line's own comments in the start file (leading and end-of-line)
	touched bool     // an operation targeted this entry
}
type vMExcl struct {
	p, v    string
	own     []string
	touched bool
}
type vMRepl struct {
	op, ov, np, nv string
	own            []string
	touched        bool
}
type vMRetr struct {
	lo, hi, rat string
}
type vMGd struct{ k, v string }
type vMUse struct {
	p       string
	own     []string
	touched bool
}

type vModel struct {
	mod, gov, tc string
	gd           []vMGd
	req          []vMReq
	excl         []vMExcl
	repl         []vMRepl
	retr         []vMRetr
	tool         []string
	use          []vMUse
}

func vOwnComments(l *Line) []string {
	var out []string
	for _, c := range l.Before {
		if t := strings.TrimSpace(c.Token); t != "" {
			out = append(out, t)
		}
	}
	for _, c := range l.Suffix {
		if t := strings.TrimSpace(c.Token); t != "" && t != "// indirect" {
			out = append(out, t)
		}
	}
	return out
}

func vReplsOf(rs []*Replace) []vMRepl {
	var out []vMRepl
	for _, r := range rs {
		out = append(out, vMRepl{op: r.Old.Path, ov: r.Old.Version, np: r.New.Path, nv: r.New.Version, own: vOwnComments(r.Syntax)})
	}
	return out
}

func vGdsOf(gs []*Godebug) []vMGd {
	var out []vMGd
	for _, g := range gs {
		out = append(out, vMGd{g.Key, g.Value})
	}
	return out
}

func vModelOfFile(f *File) *vModel {
	m := &vModel{}
	if f.Module != nil {
		m.mod = f.Module.Mod.Path
	}
	if f.Go != nil {
		m.gov = f.Go.Version
	}
	if f.Toolchain != nil {
		m.tc = f.Toolchain.Name
	}
	m.gd = vGdsOf(f.Godebug)
	for _, r := range f.Require {
		m.req = append(m.req, vMReq{p: r.Mod.Path, v: r.Mod.Version, ind: r.Indirect, own: vOwnComments(r.Syntax)})
	}
	for _, x := range f.Exclude {
		m.excl = append(m.excl, vMExcl{p: x.Mod.Path, v: x.Mod.Version, own: vOwnComments(x.Syntax)})
	}
	m.repl = vReplsOf(f.Replace)
	for _, r := range f.Retract {
		m.retr = append(m.retr, vMRetr{r.Low, r.High, r.Rationale})
	}
	for _, t := range f.Tool {
		m.tool = append(m.tool, t.Path)
	}
	return m
}

func vModelOfWork(f *WorkFile) *vModel {
	m := &vModel{}
	if f.Go != nil {
		m.gov = f.Go.Version
	}
	if f.Toolchain != nil {
		m.tc = f.Toolchain.Name
	}
	m.gd = vGdsOf(f.Godebug)
	for _, u := range f.Use {
		m.use = append(m.use, vMUse{p: u.Path, own: vOwnComments(u.Syntax)})
	}
	m.repl = vReplsOf(f.Replace)
	return m
}

// dedup is the documented de-duplication done by SortBlocks/removeDups:
// earlier exclude and tool directives win, later replace directives win.
func (m *vModel) dedup() {
	var e []vMExcl
	for _, x := range m.excl {
		dup := false
		for _, y := range e {
			if y.p == x.p && y.v == x.v {
				dup = true
			}
		}
		if !dup {
			e = append(e, x)
		}
	}
	m.excl = e
	var r []vMRepl
	for i, x := range m.repl {
		later := false
		for _, y := range m.repl[i+1:] {
			if y.op == x.op && y.ov == x.ov {
				later = true
			}
		}
		if !later {
			r = append(r, x)
		}
	}
	m.repl = r
	var t []string
	for _, x := range m.tool {
		dup := false
		for _, y := range t {
			if y == x {
				dup = true
			}
		}
		if !dup {
			t = append(t, x)
		}
	}
	m.tool = t
}

func (m *vModel) addReplace(op, ov, np, nv string) {
	need := true
	var out []vMRepl
	for _, r := range m.repl {
		if r.op == op && (ov == "" || r.ov == ov) {
			if need {
				// documented: the existing replacement is updated to use new; the
				// line is rewritten with the given old path and version
				r = vMRepl{op: op, ov: ov, np: np, nv: nv, touched: true}
				need = false
			} else {
				continue
			}
		}
		out = append(out, r)
	}
	if need {
		out = append(out, vMRepl{op: op, ov: ov, np: np, nv: nv, touched: true})
	}
	m.repl = out
}

func (m *vModel) dropReplace(op, ov string) {
	var out []vMRepl
	for _, r := range m.repl {
		if !(r.op == op && r.ov == ov) {
			out = append(out, r)
		}
	}
	m.repl = out
}

func (m *vModel) addGodebug(k, v string) {
	need := true
	var out []vMGd
	for _, g := range m.gd {
		if g.k == k {
			if need {
				g.v = v
				need = false
			} else {
				continue
			}
		}
		out = append(out, g)
	}
	if need {
		out = append(out, vMGd{k, v})
	}
	m.gd = out
}

func (m *vModel) dropGodebug(k string) {
	var out []vMGd
	for _, g := range m.gd {
		if g.k != k {
			out = append(out, g)
		}
	}
	m.gd = out
}

// ---- symbolic arguments ----

func vArgPath() string { return "a.co/" + vSym("path", 1, `[ab]`) }
func vArgVer() string  { return "v1." + vSym("ver", 1, `[01]`) + ".0" }
func vArgKey() string  { return "k" + vSym("key", 1, `[ab]`) }
func vArgDir() string  { return "./" + vSym("dir", 1, `[ab]`) }

// ---- one edit operation applied to the real file and to the model ----

const vNumModOps = 21

func vModOp(f *File, m *vModel, kind int) {
	switch kind {
	case 0:
		p, v := vArgPath(), vArgVer()
		vAssert("op-ok", f.AddRequire(p, v) == nil)
		need := true
		var out []vMReq
		for _, r := range m.req {
			if r.p == p {
				if need {
					r.v = v
					r.touched = true
					need = false
				} else {
					continue
				}
			}
			out = append(out, r)
		}
		if need {
			out = append(out, vMReq{p: p, v: v, touched: true})
		}
		m.req = out
	case 1:
		p, v, ind := vArgPath(), vArgVer(), vChoice("indirect", 2) == 1
		f.AddNewRequire(p, v, ind)
		m.req = append(m.req, vMReq{p: p, v: v, ind: ind, touched: true})
	case 2:
		p := vArgPath()
		vAssert("op-ok", f.DropRequire(p) == nil)
		var out []vMReq
		for _, r := range m.req {
			if r.p != p {
				out = append(out, r)
			}
		}
		m.req = out
	case 3:
		p, v := vArgPath(), vArgVer()
		vAssert("op-ok", f.AddExclude(p, v) == nil)
		have := false
		for _, x := range m.excl {
			if x.p == p && x.v == v {
				have = true
			}
		}
		if !have {
			m.excl = append(m.excl, vMExcl{p: p, v: v, touched: true})
		}
	case 4:
		p, v := vArgPath(), vArgVer()
		vAssert("op-ok", f.DropExclude(p, v) == nil)
		var out []vMExcl
		for _, x := range m.excl {
			if !(x.p == p && x.v == v) {
				out = append(out, x)
			}
		}
		m.excl = out
	case 5:
		op, ov := vArgPath(), ""
		if vChoice("oldver", 2) == 1 {
			ov = vArgVer()
		}
		np, nv := vArgPath(), vArgVer()
		if vChoice("local", 2) == 1 {
			np, nv = "../x", ""
		}
		vAssert("op-ok", f.AddReplace(op, ov, np, nv) == nil)
		m.addReplace(op, ov, np, nv)
	case 6:
		op, ov := vArgPath(), ""
		if vChoice("oldver", 2) == 1 {
			ov = vArgVer()
		}
		vAssert("op-ok", f.DropReplace(op, ov) == nil)
		m.dropReplace(op, ov)
	case 7:
		lo := vArgVer()
		hi := lo
		if vChoice("interval", 2) == 1 {
			hi = "v1.3.0"
		}
		rat := []string{"", "bad", "two\nlines"}[vChoice("rationale", 3)]
		vAssert("op-ok", f.AddRetract(VersionInterval{Low: lo, High: hi}, rat) == nil)
		m.retr = append(m.retr, vMRetr{lo, hi, rat})
	case 8:
		lo := vArgVer()
		hi := lo
		if vChoice("interval", 2) == 1 {
			hi = "v1.3.0"
		}
		vAssert("op-ok", f.DropRetract(VersionInterval{Low: lo, High: hi}) == nil)
		var out []vMRetr
		for _, r := range m.retr {
			if !(r.lo == lo && r.hi == hi) {
				out = append(out, r)
			}
		}
		m.retr = out
	case 9:
		p := vArgPath()
		vAssert("op-ok", f.AddTool(p) == nil)
		have := false
		for _, t := range m.tool {
			if t == p {
				have = true
			}
		}
		if !have {
			// AddTool sorts the blocks, which runs the documented de-duplication
			m.tool = append(m.tool, p)
			m.dedup()
		}
	case 10:
		p := vArgPath()
		vAssert("op-ok", f.DropTool(p) == nil)
		var out []string
		for _, t := range m.tool {
			if t != p {
				out = append(out, t)
			}
		}
		m.tool = out
	case 11:
		k, v := vArgKey(), vSym("gdval", 1, `[12]`)
		vAssert("op-ok", f.AddGodebug(k, v) == nil)
		m.addGodebug(k, v)
	case 12:
		k := vArgKey()
		vAssert("op-ok", f.DropGodebug(k) == nil)
		m.dropGodebug(k)
	case 13:
		gv := []string{"1.20", "1.21", "1.22.1"}[vChoice("gover", 3)]
		vAssert("op-ok", f.AddGoStmt(gv) == nil)
		m.gov = gv
	case 14:
		f.DropGoStmt()
		m.gov = ""
	case 15:
		tc := []string{"go1.21.0", "default"}[vChoice("tc", 2)]
		vAssert("op-ok", f.AddToolchainStmt(tc) == nil)
		m.tc = tc
	case 16:
		f.DropToolchainStmt()
		m.tc = ""
	case 17:
		p := vArgPath()
		vAssert("op-ok", f.AddModuleStmt(p) == nil)
		m.mod = p
	case 18:
		// documented: callers clean up before bulk operations and at the end; an
		// intermediate Cleanup must not change the meaning
		f.Cleanup()
	case 19, 20:
		// bulk setters: the file's requirements become exactly the requested list
		var req []*Require
		var want []vMReq
		for _, tail := range []string{"a", "b"} {
			if vChoice("want."+tail, 2) == 1 {
				v, ind := vArgVer(), vChoice("want.indirect", 2) == 1
				req = append(req, &Require{Mod: moduleVersion("a.co/"+tail, v), Indirect: ind})
				want = append(want, vMReq{p: "a.co/" + tail, v: v, ind: ind, touched: true})
			}
		}
		f.Cleanup()
		vMapOrder(true)
		if kind == 19 {
			f.SetRequire(req)
		} else {
			f.SetRequireSeparateIndirect(req)
		}
		vMapOrder(false)
		m.req = want
	}
}

const vNumWorkOps = 12

func vWorkOp(f *WorkFile, m *vModel, kind int) {
	switch kind {
	case 0:
		d := vArgDir()
		vAssert("op-ok", f.AddUse(d, "") == nil)
		need := true
		var out []vMUse
		for _, u := range m.use {
			if u.p == d {
				if need {
					u.touched = true
					need = false
				} else {
					continue
				}
			}
			out = append(out, u)
		}
		if need {
			out = append(out, vMUse{p: d, touched: true})
		}
		m.use = out
	case 1:
		d := vArgDir()
		f.AddNewUse(d, "")
		m.use = append(m.use, vMUse{p: d, touched: true})
	case 2:
		d := vArgDir()
		vAssert("op-ok", f.DropUse(d) == nil)
		var out []vMUse
		for _, u := range m.use {
			if u.p != d {
				out = append(out, u)
			}
		}
		m.use = out
	case 3:
		op, ov := vArgPath(), ""
		if vChoice("oldver", 2) == 1 {
			ov = vArgVer()
		}
		np, nv := vArgPath(), vArgVer()
		if vChoice("local", 2) == 1 {
			np, nv = "../x", ""
		}
		vAssert("op-ok", f.AddReplace(op, ov, np, nv) == nil)
		m.addReplace(op, ov, np, nv)
	case 4:
		op, ov := vArgPath(), ""
		if vChoice("oldver", 2) == 1 {
			ov = vArgVer()
		}
		vAssert("op-ok", f.DropReplace(op, ov) == nil)
		m.dropReplace(op, ov)
	case 5:
		k, v := vArgKey(), vSym("gdval", 1, `[12]`)
		vAssert("op-ok", f.AddGodebug(k, v) == nil)
		m.addGodebug(k, v)
	case 6:
		k := vArgKey()
		vAssert("op-ok", f.DropGodebug(k) == nil)
		m.dropGodebug(k)
	case 7:
		gv := []string{"1.20", "1.22.1"}[vChoice("gover", 2)]
		vAssert("op-ok", f.AddGoStmt(gv) == nil)
		m.gov = gv
	case 8:
		f.DropGoStmt()
		m.gov = ""
	case 9:
		tc := []string{"go1.21.0", "default"}[vChoice("tc", 2)]
		vAssert("op-ok", f.AddToolchainStmt(tc) == nil)
		m.tc = tc
	case 10:
		f.DropToolchainStmt()
		m.tc = ""
	case 11:
		f.Cleanup()
	}
}

// ---- multiset equality of symbolic lists (no forking) ----

// vPermEq: is there a bijection between [0,n) and [0,n) with eq(i, σ(i)) for all i?
func vPermEq(n int, eq func(i, j int) bool) bool {
	used := make([]bool, n)
	var rec func(i int) bool
	rec = func(i int) bool {
		if i == n {
			return true
		}
		res := false
		for j := 0; j < n; j++ {
			if used[j] {
				continue
			}
			used[j] = true
			res = vOr(res, vAnd(eq(i, j), rec(i+1)))
			used[j] = false
		}
		return res
	}
	return rec(0)
}

func vHasAll(have []Comment, want []string) bool {
	ok := true
	for _, w := range want {
		found := false
		for _, c := range have {
			found = vOr(found, strings.TrimSpace(c.Token) == w)
		}
		ok = vAnd(ok, found)
	}
	return ok
}

func vKeepsOwn(l *Line, own []string, touched bool) bool {
	if touched || len(own) == 0 {
		return true
	}
	return vHasAll(append(append([]Comment{}, l.Before...), l.Suffix...), own)
}

func vSameReplModel(ms []vMRepl, rs []*Replace) bool {
	if len(ms) != len(rs) {
		return false
	}
	return vPermEq(len(ms), func(i, j int) bool {
		a, b := ms[i], rs[j]
		return vAnd(vAnd(a.op == b.Old.Path, a.ov == b.Old.Version), vAnd(vAnd(a.np == b.New.Path, a.nv == b.New.Version), vKeepsOwn(b.Syntax, a.own, a.touched)))
	})
}

func vSameGdModel(ms []vMGd, gs []*Godebug) bool {
	if len(ms) != len(gs) {
		return false
	}
	return vPermEq(len(ms), func(i, j int) bool { return vAnd(ms[i].k == gs[j].Key, ms[i].v == gs[j].Value) })
}

// vModelMatchesFile: the strictly re-parsed file has exactly the model's directives (C08).
func vModelMatchesFile(m *vModel, g *File) {
	vAssert("model:module", (g.Module == nil) == (m.mod == "") && (g.Module == nil || g.Module.Mod.Path == m.mod))
	vAssert("model:go", (g.Go == nil) == (m.gov == "") && (g.Go == nil || g.Go.Version == m.gov))
	vAssert("model:toolchain", (g.Toolchain == nil) == (m.tc == "") && (g.Toolchain == nil || g.Toolchain.Name == m.tc))
	vAssert("model:godebug", vSameGdModel(m.gd, g.Godebug))
	vAssert("model:require", len(m.req) == len(g.Require) && vPermEq(len(m.req), func(i, j int) bool {
		a, b := m.req[i], g.Require[j]
		return vAnd(vAnd(a.p == b.Mod.Path, a.v == b.Mod.Version), vAnd(a.ind == b.Indirect, vKeepsOwn(b.Syntax, a.own, a.touched)))
	}))
	vAssert("model:exclude", len(m.excl) == len(g.Exclude) && vPermEq(len(m.excl), func(i, j int) bool {
		a, b := m.excl[i], g.Exclude[j]
		return vAnd(vAnd(a.p == b.Mod.Path, a.v == b.Mod.Version), vKeepsOwn(b.Syntax, a.own, a.touched))
	}))
	vAssert("model:replace", vSameReplModel(m.repl, g.Replace))
	vAssert("model:retract", len(m.retr) == len(g.Retract) && vPermEq(len(m.retr), func(i, j int) bool {
		a, b := m.retr[i], g.Retract[j]
		return vAnd(vAnd(a.lo == b.Low, a.hi == b.High), a.rat == b.Rationale)
	}))
	vAssert("model:tool", len(m.tool) == len(g.Tool) && vPermEq(len(m.tool), func(i, j int) bool { return m.tool[i] == g.Tool[j].Path }))
}

func vModelMatchesWork(m *vModel, g *WorkFile) {
	vAssert("model:go", (g.Go == nil) == (m.gov == "") && (g.Go == nil || g.Go.Version == m.gov))
	vAssert("model:toolchain", (g.Toolchain == nil) == (m.tc == "") && (g.Toolchain == nil || g.Toolchain.Name == m.tc))
	vAssert("model:godebug", vSameGdModel(m.gd, g.Godebug))
	vAssert("model:use", len(m.use) == len(g.Use) && vPermEq(len(m.use), func(i, j int) bool {
		return vAnd(m.use[i].p == g.Use[j].Path, vKeepsOwn(g.Use[j].Syntax, m.use[i].own, m.use[i].touched))
	}))
	vAssert("model:replace", vSameReplModel(m.repl, g.Replace))
}

// vListsMatchFile: the in-memory typed lists equal, as multisets, the strict
// re-parse, and contain no cleared placeholders (C15).
func vListsMatchFile(f, g *File) {
	vAssert("lists:module", (f.Module == nil) == (g.Module == nil) && (f.Module == nil || f.Module.Mod.Path == g.Module.Mod.Path))
	vAssert("lists:go", (f.Go == nil) == (g.Go == nil) && (f.Go == nil || f.Go.Version == g.Go.Version))
	vAssert("lists:toolchain", (f.Toolchain == nil) == (g.Toolchain == nil) && (f.Toolchain == nil || f.Toolchain.Name == g.Toolchain.Name))
	for _, x := range f.Godebug {
		vAssert("lists:no-placeholder-godebug", x != nil && x.Syntax != nil && x.Key != "")
	}
	for _, x := range f.Require {
		vAssert("lists:no-placeholder-require", x != nil && x.Syntax != nil && x.Mod.Path != "")
	}
	for _, x := range f.Exclude {
		vAssert("lists:no-placeholder-exclude", x != nil && x.Syntax != nil && x.Mod.Path != "")
	}
	for _, x := range f.Replace {
		vAssert("lists:no-placeholder-replace", x != nil && x.Syntax != nil && x.Old.Path != "")
	}
	for _, x := range f.Retract {
		vAssert("lists:no-placeholder-retract", x != nil && x.Syntax != nil && x.Low != "")
	}
	for _, x := range f.Tool {
		vAssert("lists:no-placeholder-tool", x != nil && x.Syntax != nil && x.Path != "")
	}
	m := vModelOfFile(f)
	for i := range m.req {
		m.req[i].touched = true
	}
	for i := range m.excl {
		m.excl[i].touched = true
	}
	for i := range m.repl {
		m.repl[i].touched = true
	}
	vAssert("lists:godebug", vSameGdModel(m.gd, g.Godebug))
	vAssert("lists:require", len(m.req) == len(g.Require) && vPermEq(len(m.req), func(i, j int) bool {
		a, b := m.req[i], g.Require[j]
		return vAnd(vAnd(a.p == b.Mod.Path, a.v == b.Mod.Version), a.ind == b.Indirect)
	}))
	vAssert("lists:exclude", len(m.excl) == len(g.Exclude) && vPermEq(len(m.excl), func(i, j int) bool {
		return vAnd(m.excl[i].p == g.Exclude[j].Mod.Path, m.excl[i].v == g.Exclude[j].Mod.Version)
	}))
	vAssert("lists:replace", vSameReplModel(m.repl, g.Replace))
	vAssert("lists:retract", len(m.retr) == len(g.Retract) && vPermEq(len(m.retr), func(i, j int) bool {
		a, b := m.retr[i], g.Retract[j]
		return vAnd(vAnd(a.lo == b.Low, a.hi == b.High), a.rat == b.Rationale)
	}))
	vAssert("lists:tool", len(m.tool) == len(g.Tool) && vPermEq(len(m.tool), func(i, j int) bool { return m.tool[i] == g.Tool[j].Path }))
}

func vListsMatchWork(f, g *WorkFile) {
	vAssert("lists:go", (f.Go == nil) == (g.Go == nil) && (f.Go == nil || f.Go.Version == g.Go.Version))
	vAssert("lists:toolchain", (f.Toolchain == nil) == (g.Toolchain == nil) && (f.Toolchain == nil || f.Toolchain.Name == g.Toolchain.Name))
	for _, x := range f.Godebug {
		vAssert("lists:no-placeholder-godebug", x != nil && x.Syntax != nil && x.Key != "")
	}
	for _, x := range f.Use {
		vAssert("lists:no-placeholder-use", x != nil && x.Syntax != nil && x.Path != "")
	}
	for _, x := range f.Replace {
		vAssert("lists:no-placeholder-replace", x != nil && x.Syntax != nil && x.Old.Path != "")
	}
	m := vModelOfWork(f)
	for i := range m.use {
		m.use[i].touched = true
	}
	for i := range m.repl {
		m.repl[i].touched = true
	}
	vAssert("lists:godebug", vSameGdModel(m.gd, g.Godebug))
	vAssert("lists:use", len(m.use) == len(g.Use) && vPermEq(len(m.use), func(i, j int) bool { return m.use[i].p == g.Use[j].Path }))
	vAssert("lists:replace", vSameReplModel(m.repl, g.Replace))
}

// ---- start files ----

var vModStarts = []string{
	"module m.co/x\n",
	`// header
module m.co/x

go 1.20

require (
	// c1
	a.co/a v1.0.0 // s1
	a.co/b v1.1.0 // indirect
)

exclude a.co/a v1.0.0 // xs

replace a.co/a v1.0.0 => a.co/b v1.0.0 // rs

// bad
retract v1.0.0

tool a.co/a

godebug ka=1
`,
	`module m.co/x

go 1.21

toolchain go1.21.0

require a.co/a v1.0.0 // first

require (
	a.co/a v1.1.0
)

exclude (
	a.co/b v1.1.0
	a.co/b v1.0.0
)

replace (
	a.co/a => ../x
	// rc
	a.co/b v1.0.0 => a.co/a v1.1.0
)

retract [v1.0.0, v1.3.0]

tool (
	a.co/b
	a.co/a
)

godebug (
	ka=1
	kb=2
)
`,
}

func init() {
	vModStarts = append(vModStarts, `module m.co/x

go 1.21

require (
	a.co/a v1.0.0
	a.co/b v1.1.0 // indirect
	// tail
)

replace (
	a.co/a => ../x
	a.co/b => ../y
	// tail
)

tool (
	a.co/a
	a.co/b
	// tail
)
`)
	vWorkStarts = append(vWorkStarts, `go 1.21

use (
	./a
	./b
	// tail
)

godebug (
	ka=1
	kb=2
	// tail
)
`)
}

var vWorkStarts = []string{
	"go 1.20\n",
	`// header
go 1.20

use ./a // ua

replace a.co/a v1.0.0 => a.co/b v1.0.0 // rs

godebug ka=1
`,
	`go 1.21

toolchain go1.21.0

use (
	// cb
	./b
	./a
)

replace (
	a.co/a => ../x
	a.co/b v1.0.0 => a.co/a v1.1.0
)

godebug (
	ka=1
	kb=2
)
`,
}

// vMidCleanup: whether Cleanup is called between two operations
// (parameter midcleanup: 0 never, 1 always, 2 both ways by choice).
func vMidCleanup() bool {
	switch vParam("midcleanup", 0) {
	case 1:
		return true
	case 2:
		return vChoice("midcleanup", 2) == 1
	}
	return false
}

func vRunMod(checkModel bool) {
	start := vModStarts[vChoice("start", len(vModStarts))]
	f, err := Parse("go.mod", []byte(start), nil)
	if err != nil {
		panic(err)
	}
	m := vModelOfFile(f)
	n := 1 + vChoice("nops", vParam("maxops", 2))
	for i := 0; i < n; i++ {
		if i > 0 && vMidCleanup() {
			f.Cleanup()
		}
		vModOp(f, m, vChoice("op", vNumModOps))
	}
	f.Cleanup()
	out, err := f.Format()
	vAssert("format-ok", err == nil)
	g, err := Parse("go.mod", out, nil)
	vAssert("formatted-parses-strictly", err == nil && g != nil)
	if err != nil {
		return
	}
	vReach("edited")
	if checkModel {
		vModelMatchesFile(m, g)
	} else {
		vListsMatchFile(f, g)
	}
}

func vRunWork(checkModel bool) {
	start := vWorkStarts[vChoice("start", len(vWorkStarts))]
	f, err := ParseWork("go.work", []byte(start), nil)
	if err != nil {
		panic(err)
	}
	m := vModelOfWork(f)
	n := 1 + vChoice("nops", vParam("maxops", 2))
	for i := 0; i < n; i++ {
		if i > 0 && vMidCleanup() {
			f.Cleanup()
		}
		vWorkOp(f, m, vChoice("op", vNumWorkOps))
	}
	f.Cleanup()
	out := Format(f.Syntax)
	g, err := ParseWork("go.work", out, nil)
	vAssert("formatted-parses-strictly", err == nil && g != nil)
	if err != nil {
		return
	}
	vReach("edited")
	if checkModel {
		vModelMatchesWork(m, g)
	} else {
		vListsMatchWork(f, g)
	}
}

// VerifC15Mod: after any sequence of go.mod edit operations and Cleanup the
// typed lists equal the strict re-parse of the formatted file.
func VerifC15Mod() { vRunMod(false) }

// VerifC15Work: the same for go.work.
func VerifC15Work() { vRunWork(false) }

// VerifC08Mod: after any sequence of go.mod edit operations and Cleanup the
// strictly re-parsed file has exactly the directives of the keyed-collection
// model, and untouched lines keep their own comments.
func VerifC08Mod() { vRunMod(true) }

// VerifC08Work: the same for go.work.
func VerifC08Work() { vRunWork(true) }

func VerifC15Twin() {
	f, err := Parse("go.mod", []byte(vModStarts[1]), nil)
	vAssume(err == nil)
	m := vModelOfFile(f)
	vModOp(f, m, 0)
	f.Cleanup()
	vAssume(len(f.Require) == 2)
	vAssert("twin", false)
}
