//go:build verif

package modfile

import (
	"golang.org/x/mod/module"
	"golang.org/x/mod/semver"
)

func init() {
	vRegister("C02Directives", VerifC02Directives)
	vRegister("C02Work", VerifC02Work)
	vRegister("C02DirTwin", VerifC02DirTwin)
}

// ---- generator of well-formed go.mod / go.work texts (layout by choice,
// token and comment contents symbolic) ----

type vGen struct {
	b      []byte
	eol    string
	work   bool
	ncom   int
	layout bool // layout profile: comments, blank lines, CRLF; plain tokens
}

// yes draws a layout choice; in the values profile layout choices are off.
func (g *vGen) yes(name string) bool {
	return g.layout && vChoice(name, 2) == 1
}

func (g *vGen) s(x string) { g.b = append(g.b, x...) }

const (
	vBareClass   = `[a-c./*~+=-]`    // characters that may appear in a bare token
	vQuotedClass = `[a-c./* \\\\'=]` // inside double quotes (backslash escapes included)
	vRawClass    = `[a-c./* "\\\\]`  // inside back quotes
)

// path produces a module path / directory token in one of three spellings.
func (g *vGen) path(name, base string) {
	if g.layout {
		g.s(base + "c")
		return
	}
	n := vChoice(name+".taillen", vParam("maxtail", 2)+1)
	switch vChoice(name+".quote", 3) {
	case 0:
		class := vBareClass
		if name == "mod" {
			// a bare "//" would start a module comment, whose text feeds a regular
			// expression with submatches (kept concrete; see vModuleComments)
			class = `[a-c.*~+=-]`
		}
		g.s(base + vSym(name+".bare", n, class))
	case 1:
		g.s(`"` + base + vSym(name+".quoted", n, vQuotedClass) + `"`)
	case 2:
		g.s("`" + base + vSym(name+".raw", n, vRawClass) + "`")
	}
}

// ver produces a version token v1.D.D with symbolic digits, optionally in a
// shortened or pre-release spelling that only a fixer makes canonical.
func (g *vGen) ver(name string) {
	if g.layout {
		g.s("v1.2.3")
		return
	}
	d := vSym(name+".digits", 2, `[0-9]`)
	switch vChoice(name+".form", 3) {
	case 0:
		g.s("v1." + d[:1] + "." + d[1:])
	case 1:
		g.s("v1." + d[:1]) // shortened: needs a fixer
	case 2:
		g.s("v1." + d[:1] + "." + d[1:] + "-pre")
	}
}

func (g *vGen) comment(name string) {
	// the first comment of a file has symbolic text, later ones are fixed
	if g.ncom == 0 {
		g.s("//" + vSym(name, vChoice(name+".len", 2)*2, `[a-c /]`))
	} else {
		g.s("// c" + string(rune('0'+g.ncom)))
	}
	g.ncom++
}

var vModuleComments = []string{"// Deprecated: use a.b/d", "// c", "//"}
var vLayoutVerbs = []string{"module", "require", "retract", "godebug", "unknownverb"}
var vLayoutWorkVerbs = []string{"use", "godebug", "replace", "unknownverb"}

var vModVerbs = []string{"module", "go", "toolchain", "godebug", "require", "exclude", "replace", "retract", "tool", "unknownverb"}
var vWorkVerbs = []string{"go", "toolchain", "godebug", "use", "replace", "unknownverb"}

// args writes the arguments of one directive line.
func (g *vGen) args(verb string) {
	switch verb {
	case "module":
		g.path("mod", "a.b/")
	case "go":
		g.s("1.2" + vSym("go.digit", 1, `[0-9]`))
	case "toolchain":
		if vChoice("tc.default", 2) == 1 {
			g.s("default")
		} else {
			g.s("go1.2" + vSym("tc.digit", 1, `[0-9]`))
		}
	case "godebug":
		g.s("k" + vSym("gd.key", 1, `[a-c]`) + "=" + vSym("gd.val", vChoice("gd.vallen", 2), `[a-c0-9]`))
	case "require", "exclude":
		g.path("req", "a.b/")
		g.s(" ")
		g.ver("reqv")
	case "replace":
		g.path("old", "a.b/")
		if vChoice("repl.oldver", 2) == 1 {
			g.s(" ")
			g.ver("oldv")
		}
		g.s(" => ")
		if vChoice("repl.local", 2) == 1 {
			g.path("newdir", "./")
		} else {
			g.path("new", "c.d/")
			g.s(" ")
			g.ver("newv")
		}
	case "retract":
		if vChoice("retract.interval", 2) == 1 {
			g.s("[")
			g.ver("lo")
			g.s(", ")
			g.ver("hi")
			g.s("]")
		} else {
			g.ver("lo")
		}
	case "tool":
		g.path("tool", "a.b/")
	case "use":
		g.path("use", "./")
	case "unknownverb":
		g.s("x y")
	}
}

func (g *vGen) stmt(i int) {
	verbs := vModVerbs
	switch {
	case g.work && g.layout:
		verbs = vLayoutWorkVerbs
	case g.work:
		verbs = vWorkVerbs
	case g.layout:
		verbs = vLayoutVerbs
	}
	verb := verbs[vChoice("verb", len(verbs))]
	com := 0
	if g.layout {
		com = vChoice("comments", 4) // none, before, suffix, both
	}
	if com&1 == 1 {
		if verb == "module" {
			// module comments feed a regular expression with submatches: kept concrete
			g.s(vModuleComments[vChoice("modcomment", len(vModuleComments))])
		} else {
			g.comment("before")
		}
		g.s(g.eol)
	}
	form := vChoice("form", vParam("forms", 3)) // line, block of 1, block of 2
	if form == 0 {
		g.s(verb + " ")
		g.args(verb)
		if verb == "require" && vChoice("indirect", 2) == 1 {
			g.s(" // indirect")
		} else if com&2 == 2 {
			g.s(" ")
			if verb == "module" {
				g.s(vModuleComments[vChoice("modsuffix", len(vModuleComments))])
			} else {
				g.comment("suffix")
			}
		}
		g.s(g.eol)
		return
	}
	g.s(verb + " (")
	if com&2 == 2 && g.yes("parencomment") {
		g.s(" ")
		g.comment("lparen")
	}
	g.s(g.eol)
	inner := 0
	if g.layout {
		inner = vChoice("inner", 4) // nothing, blank line, comment line, both (before the last line)
	}
	for k := 0; k < form; k++ {
		last := k == form-1
		if last && inner&1 == 1 {
			g.s(g.eol)
		}
		if verb != "module" && last && inner&2 == 2 {
			g.s("\t")
			g.comment("inner")
			g.s(g.eol)
		}
		g.s("\t")
		g.args(verb)
		if com&2 == 2 && verb != "module" {
			g.s(" ")
			g.comment("suffix")
		}
		g.s(g.eol)
	}
	g.s(")" + g.eol)
}

func vGenFile(work bool) []byte {
	g := &vGen{eol: "\n", work: work, layout: vParam("layout", 0) == 1}
	if g.yes("crlf") {
		g.eol = "\r\n"
	}
	n := 1 + vChoice("nstmt", vParam("maxstmt", 1))
	for i := 0; i < n; i++ {
		if i > 0 && g.yes("blank") {
			g.s(g.eol)
		}
		g.stmt(i)
	}
	if g.yes("trailing") {
		g.comment("trailing")
		g.s(g.eol)
	}
	return g.b
}

// vFixer canonicalises versions the way cmd/go's fixer does for valid ones.
func vFixer(path, vers string) (string, error) {
	if !semver.IsValid(vers) {
		return "", errVFix
	}
	return semver.Canonical(vers), nil
}

var errVFix = &Error{}

// ---- comparison of parsed directive values ----

func vSameVersion(a, b module.Version) bool {
	return vAnd(a.Path == b.Path, a.Version == b.Version)
}

func vSameGodebug(a, b []*Godebug) bool {
	if len(a) != len(b) {
		return false
	}
	ok := true
	for i := range a {
		ok = vAnd(ok, vAnd(a[i].Key == b[i].Key, a[i].Value == b[i].Value))
	}
	return ok
}

func vSameReplace(a, b []*Replace) bool {
	if len(a) != len(b) {
		return false
	}
	ok := true
	for i := range a {
		ok = vAnd(ok, vAnd(vSameVersion(a[i].Old, b[i].Old), vSameVersion(a[i].New, b[i].New)))
	}
	return ok
}

func vSameFile(a, b *File) bool {
	ok := true
	if (a.Module == nil) != (b.Module == nil) || (a.Go == nil) != (b.Go == nil) || (a.Toolchain == nil) != (b.Toolchain == nil) {
		return false
	}
	if a.Module != nil {
		ok = vAnd(ok, vAnd(vSameVersion(a.Module.Mod, b.Module.Mod), a.Module.Deprecated == b.Module.Deprecated))
	}
	if a.Go != nil {
		ok = vAnd(ok, a.Go.Version == b.Go.Version)
	}
	if a.Toolchain != nil {
		ok = vAnd(ok, a.Toolchain.Name == b.Toolchain.Name)
	}
	if len(a.Require) != len(b.Require) || len(a.Exclude) != len(b.Exclude) || len(a.Retract) != len(b.Retract) || len(a.Tool) != len(b.Tool) {
		return false
	}
	ok = vAnd(ok, vSameGodebug(a.Godebug, b.Godebug))
	for i := range a.Require {
		ok = vAnd(ok, vAnd(vSameVersion(a.Require[i].Mod, b.Require[i].Mod), a.Require[i].Indirect == b.Require[i].Indirect))
	}
	for i := range a.Exclude {
		ok = vAnd(ok, vSameVersion(a.Exclude[i].Mod, b.Exclude[i].Mod))
	}
	ok = vAnd(ok, vSameReplace(a.Replace, b.Replace))
	for i := range a.Retract {
		ok = vAnd(ok, vAnd(a.Retract[i].Low == b.Retract[i].Low, vAnd(a.Retract[i].High == b.Retract[i].High, a.Retract[i].Rationale == b.Retract[i].Rationale)))
	}
	for i := range a.Tool {
		ok = vAnd(ok, a.Tool[i].Path == b.Tool[i].Path)
	}
	return ok
}

func vSameWork(a, b *WorkFile) bool {
	ok := true
	if (a.Go == nil) != (b.Go == nil) || (a.Toolchain == nil) != (b.Toolchain == nil) || len(a.Use) != len(b.Use) {
		return false
	}
	if a.Go != nil {
		ok = vAnd(ok, a.Go.Version == b.Go.Version)
	}
	if a.Toolchain != nil {
		ok = vAnd(ok, a.Toolchain.Name == b.Toolchain.Name)
	}
	ok = vAnd(ok, vSameGodebug(a.Godebug, b.Godebug))
	for i := range a.Use {
		ok = vAnd(ok, vAnd(a.Use[i].Path == b.Use[i].Path, a.Use[i].ModulePath == b.Use[i].ModulePath))
	}
	ok = vAnd(ok, vSameReplace(a.Replace, b.Replace))
	return ok
}

func vFixChoice() VersionFixer {
	if vParam("layout", 0) == 0 && vChoice("fixer", 2) == 1 {
		return vFixer
	}
	return nil
}

// VerifC02Directives: for every generated go.mod text accepted by the strict
// parser, the directive values before and after formatting are identical (with
// or without a fixer), the output parses strictly, and formatting is idempotent.
func VerifC02Directives() {
	data := vGenFile(false)
	fix := vFixChoice()
	f, err := Parse("go.mod", data, fix)
	if err != nil {
		vReach("strict-rejected")
		return
	}
	vReach("strict-accepted")
	out, err := f.Format()
	vAssert("format-ok", err == nil)
	f2, err := Parse("go.mod", out, fix)
	vAssert("formatted-parses-strictly", err == nil && f2 != nil)
	if err != nil {
		return
	}
	vAssert("same-directive-values", vSameFile(f, f2))
	vAssert("same-syntax-after-format", vSameFlat(vFlatten(f.Syntax), vFlatten(f2.Syntax)))
	out2, err := f2.Format()
	vAssert("format-idempotent", err == nil && string(out2) == string(out))
	// the formatted text needs no fixer any more
	f3, err := Parse("go.mod", out, nil)
	vAssert("formatted-parses-without-fixer", err == nil && f3 != nil)
	if err == nil {
		vAssert("same-values-without-fixer", vSameFile(f, f3))
	}
}

// VerifC02Work: the same for go.work.
func VerifC02Work() {
	data := vGenFile(true)
	fix := vFixChoice()
	f, err := ParseWork("go.work", data, fix)
	if err != nil {
		vReach("strict-rejected")
		return
	}
	vReach("strict-accepted")
	out := Format(f.Syntax)
	f2, err := ParseWork("go.work", out, fix)
	vAssert("formatted-parses-strictly", err == nil && f2 != nil)
	if err != nil {
		return
	}
	vAssert("same-directive-values", vSameWork(f, f2))
	out2 := Format(f2.Syntax)
	vAssert("format-idempotent", string(out2) == string(out))
}

func VerifC02DirTwin() {
	data := vGenFile(false)
	f, err := Parse("go.mod", data, nil)
	vAssume(err == nil && len(f.Replace) == 1)
	vAssert("twin", false)
}
