//go:build verif

package modfile

import (
	"strings"
	"unicode/utf8"
)

func init() {
	vRegister("C02Syntax", VerifC02Syntax)
	vRegister("C02SyntaxASCII", VerifC02SyntaxASCII)
	vRegister("C02SyntaxAlphabet", VerifC02SyntaxAlphabet)
	vRegister("C02Strings", VerifC02Strings)
	vRegister("C02Twin", VerifC02Twin)
}

// ---- structural comparison of syntax trees ----

// vFlat is the flattened form of a syntax tree used by the round-trip oracle:
// the statement skeleton (kinds and tokens) and, separately, the comment texts
// in one fixed walk order (file Before; per expression Before, contents,
// Suffix, After; file Suffix, After), trimmed of surrounding white space.
type vFlat struct {
	kinds []string   // "CB", "L", "B(", "B)" per node
	toks  [][]string // tokens per node
	coms  []string
}

func (fl *vFlat) add(c []Comment) {
	for _, x := range c {
		fl.coms = append(fl.coms, strings.TrimSpace(x.Token))
	}
}

func (fl *vFlat) expr(x Expr) {
	c := x.Comment()
	fl.add(c.Before)
	switch x := x.(type) {
	case *CommentBlock:
		fl.kinds = append(fl.kinds, "CB")
		fl.toks = append(fl.toks, nil)
	case *Line:
		fl.kinds = append(fl.kinds, "L")
		fl.toks = append(fl.toks, x.Token)
	case *LineBlock:
		fl.kinds = append(fl.kinds, "B(")
		fl.toks = append(fl.toks, x.Token)
		fl.expr(&x.LParen)
		for _, l := range x.Line {
			fl.expr(l)
		}
		fl.expr(&x.RParen)
		fl.kinds = append(fl.kinds, "B)")
		fl.toks = append(fl.toks, nil)
	case *LParen:
		fl.kinds = append(fl.kinds, "(")
		fl.toks = append(fl.toks, nil)
	case *RParen:
		fl.kinds = append(fl.kinds, ")")
		fl.toks = append(fl.toks, nil)
	}
	fl.add(c.Suffix)
	fl.add(c.After)
}

func vFlatten(f *FileSyntax) *vFlat {
	fl := &vFlat{}
	fl.add(f.Before)
	for _, s := range f.Stmt {
		fl.expr(s)
	}
	fl.add(f.Suffix)
	fl.add(f.After)
	return fl
}

// vSameFlat reports (as one boolean term) whether two flattened trees have the
// same statements, tokens and comment texts in the same order.
func vSameFlat(a, b *vFlat) bool {
	if len(a.kinds) != len(b.kinds) || len(a.coms) != len(b.coms) {
		return false
	}
	ok := true
	for i := range a.kinds {
		if a.kinds[i] != b.kinds[i] || len(a.toks[i]) != len(b.toks[i]) {
			return false
		}
		for j := range a.toks[i] {
			if len(a.toks[i][j]) != len(b.toks[i][j]) {
				return false
			}
			ok = vAnd(ok, a.toks[i][j] == b.toks[i][j])
		}
	}
	for i := range a.coms {
		if len(a.coms[i]) != len(b.coms[i]) {
			return false
		}
		ok = vAnd(ok, a.coms[i] == b.coms[i])
	}
	return ok
}

// ---- positions (C20) ----

// vPosOK: byte offset within the input, line = 1 + newlines before it,
// column = 1 + runes since the last newline.
func vPosOK(data []byte, p Position) bool {
	if p.Byte < 0 || p.Byte > len(data) {
		return false
	}
	line, col := 1, 1
	for i := 0; i < p.Byte; {
		if data[i] == '\n' {
			line++
			col = 1
			i++
			continue
		}
		_, size := utf8.DecodeRune(data[i:])
		col++
		i += size
	}
	return p.Line == line && p.LineRune == col
}

func vHasPrefixAt(data []byte, off int, s string) bool {
	if off < 0 || off+len(s) > len(data) {
		return false
	}
	return string(data[off:off+len(s)]) == s
}

func vCheckComments(data []byte, c *Comments) {
	for _, l := range [][]Comment{c.Before, c.Suffix, c.After} {
		for _, com := range l {
			if com.Token == "" && com.Start == (Position{}) {
				continue // blank-line marker inserted by the block parser
			}
			vAssert("comment-position-consistent", vPosOK(data, com.Start))
			vAssert("comment-position-at-text", vHasPrefixAt(data, com.Start.Byte, com.Token))
			vAssert("comment-starts-with-slashes", strings.HasPrefix(com.Token, "//"))
		}
	}
}

func vCheckLine(data []byte, l *Line) {
	vCheckComments(data, &l.Comments)
	vAssert("line-start-consistent", vPosOK(data, l.Start))
	vAssert("line-end-consistent", vPosOK(data, l.End))
	vAssert("line-has-token", len(l.Token) > 0)
	if len(l.Token) == 0 {
		return
	}
	if !l.InBlock || true {
		vAssert("line-start-at-first-token", vHasPrefixAt(data, l.Start.Byte, l.Token[0]))
	}
	last := l.Token[len(l.Token)-1]
	vAssert("line-end-after-last-token", vHasPrefixAt(data, l.End.Byte-len(last), last))
}

func vCheckPositions(data []byte, f *FileSyntax) {
	vCheckComments(data, &f.Comments)
	for _, st := range f.Stmt {
		switch x := st.(type) {
		case *CommentBlock:
			vCheckComments(data, &x.Comments)
			vAssert("commentblock-start-consistent", vPosOK(data, x.Start))
			vAssert("commentblock-start-at-slashes", vHasPrefixAt(data, x.Start.Byte, "//"))
		case *Line:
			vCheckLine(data, x)
		case *LineBlock:
			vCheckComments(data, &x.Comments)
			vCheckComments(data, &x.LParen.Comments)
			vCheckComments(data, &x.RParen.Comments)
			vAssert("block-start-consistent", vPosOK(data, x.Start))
			vAssert("block-start-at-first-token", len(x.Token) > 0 && vHasPrefixAt(data, x.Start.Byte, x.Token[0]))
			vAssert("lparen-position", vPosOK(data, x.LParen.Pos) && vHasPrefixAt(data, x.LParen.Pos.Byte, "("))
			vAssert("rparen-position", vPosOK(data, x.RParen.Pos) && vHasPrefixAt(data, x.RParen.Pos.Byte, ")"))
			for _, l := range x.Line {
				vCheckLine(data, l)
			}
		}
	}
}

// vSyntaxRoundTrip is the body shared by the syntax-layer harnesses.
func vSyntaxRoundTrip(data []byte) {
	f, err := parse("go.mod", data)
	if err != nil {
		vReach("syntax-error")
		el, ok := err.(ErrorList)
		vAssert("error-is-ErrorList", ok && len(el) > 0 && f == nil)
		for _, e := range el {
			vAssert("no-internal-error", !strings.HasPrefix(e.Err.Error(), "internal error"))
			vAssert("error-position-consistent", vPosOK(data, e.Pos))
		}
		return
	}
	vReach("syntax-ok")
	vAssert("result-non-nil", f != nil)
	vCheckPositions(data, f)
	out := Format(f)
	f2, err2 := parse("go.mod", out)
	vAssert("formatted-output-parses", err2 == nil && f2 != nil)
	if err2 != nil {
		return
	}
	vAssert("same-statements-tokens-comments", vSameFlat(vFlatten(f), vFlatten(f2)))
	out2 := Format(f2)
	vAssert("format-idempotent", string(out2) == string(out))
}

// VerifC02Syntax: every byte string up to maxlen.
func VerifC02Syntax() {
	n := vChoice("len", vParam("maxlen", 3)+1)
	data := vBytes("data", n)
	vSyntaxRoundTrip(data)
}

// VerifC02SyntaxASCII: every ASCII string up to maxlen (one byte longer than the
// full-byte harness reaches).
func VerifC02SyntaxASCII() {
	n := vChoice("len", vParam("maxlen", 4)+1)
	data := vBytes("data", n)
	vAssume(vMatch(`^[\x00-\x7f]*$`, string(data)))
	vSyntaxRoundTrip(data)
}

// VerifC02SyntaxAlphabet: every string up to maxlen over the characters the
// lexer distinguishes (identifier letter, space, tab, CR, LF, parentheses,
// brackets, comma, slash, star, both quotes, backslash).
func VerifC02SyntaxAlphabet() {
	n := vChoice("len", vParam("maxlen", 6)+1)
	data := vBytes("data", n)
	vAssume(vMatch("^[a \\t\\r\\n()\\[\\],/*\"`\\\\]*$", string(data)))
	vSyntaxRoundTrip(data)
}

// VerifC02Strings: two statements, the second holding a quoted string with
// symbolic content (backslashes, quotes and newlines included), each with or
// without an end-of-line comment: the longer inputs that interactions between
// string lexing and comment attachment need.
func VerifC02Strings() {
	var b []byte
	b = append(b, "a b"...)
	if vChoice("c1", 2) == 1 {
		b = append(b, " //p"...)
	}
	b = append(b, "\nc "...)
	q := []string{"\"", "`"}[vChoice("quote", 2)]
	body := vString("body", vChoice("len", vParam("maxbody", 2)+1))
	vAssume(vMatch("^[a \\\\\n\"`/]*$", body))
	b = append(b, q...)
	b = append(b, body...)
	b = append(b, q...)
	if vChoice("c2", 2) == 1 {
		b = append(b, " //q"...)
	}
	b = append(b, '\n')
	if vChoice("third", 2) == 1 {
		b = append(b, "d e //r\n"...)
	}
	vSyntaxRoundTrip(b)
}

func VerifC02Twin() {
	data := vBytes("data", 3)
	f, err := parse("go.mod", data)
	vAssume(err == nil && len(f.Stmt) == 1)
	vAssert("twin", false)
}
