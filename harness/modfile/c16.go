//go:build verif

package modfile

import (
	"strings"

	"golang.org/x/mod/semver"
)

func init() {
	vRegister("C16SetRequire", VerifC16SetRequire)
	vRegister("C16SetUse", VerifC16SetUse)
	vRegister("C16Twice", VerifC16Twice)
	vRegister("C16Twin", VerifC16Twin)
}

var vC16Starts = []string{
	// one uncommented line
	"module m.co/x\n\nrequire a.co/a v1.0.0\n",
	// one uncommented block, mixed direct and indirect
	"module m.co/x\n\ngo 1.21\n\nrequire (\n\ta.co/a v1.0.0\n\ta.co/b v1.1.0 // indirect\n\ta.co/c v1.0.0\n)\n",
	// duplicates, two blocks, comments on lines
	"module m.co/x\n\nrequire (\n\t// lead a\n\ta.co/a v1.0.0 // sfx a\n\ta.co/b v1.0.0 // indirect; sfx b\n)\n\nrequire (\n\ta.co/a v1.1.0\n\ta.co/c v1.1.0 // indirect\n)\n",
	// commented block and single lines; exclude and retract blocks to be sorted
	"module m.co/x\n\ngo 1.21\n\n// block comment\nrequire (\n\ta.co/b v1.0.0\n)\n\nrequire a.co/a v1.0.0 // sfx a\nrequire a.co/a v1.1.0\n\nexclude (\n\ta.co/a v1.10.0\n\ta.co/a v1.9.0\n)\n\nretract (\n\tv1.0.0\n\t[v1.1.0, v1.2.0]\n)\n",
	// separate blocks already
	"module m.co/x\n\nrequire (\n\ta.co/a v1.0.0\n\ta.co/b v1.0.0\n)\n\nrequire (\n\ta.co/c v1.0.0 // indirect\n)\n",
	// no requirements at all
	"module m.co/x\n\ngo 1.20\n",
}

// vSuffixText returns the text of an end-of-line comment other than the indirect marker.
func vSuffixText(tok string) string {
	t := strings.TrimSpace(strings.TrimPrefix(strings.TrimSpace(tok), "//"))
	if t == "indirect" {
		return ""
	}
	if strings.HasPrefix(t, "indirect;") {
		return strings.TrimSpace(strings.TrimPrefix(t, "indirect;"))
	}
	return t
}

type vKept struct {
	path   string
	before []string
	suffix string
}

// vFirstLines records, for the first requirement line of every path in the
// start file, its leading comment texts and its end-of-line text.
func vFirstLines(f *File) []vKept {
	var out []vKept
	for _, r := range f.Require {
		seen := false
		for _, k := range out {
			if k.path == r.Mod.Path {
				seen = true
			}
		}
		if seen {
			continue
		}
		k := vKept{path: r.Mod.Path}
		for _, c := range r.Syntax.Before {
			if t := strings.TrimSpace(c.Token); t != "" {
				k.before = append(k.before, t)
			}
		}
		if len(r.Syntax.Suffix) > 0 {
			k.suffix = vSuffixText(r.Syntax.Suffix[0].Token)
		}
		out = append(out, k)
	}
	return out
}

// ---- documented block orders, written independently of the comparators ----

func vTokensLess(a, b []string) bool {
	for k := 0; k < len(a) && k < len(b); k++ {
		if a[k] != b[k] {
			return a[k] < b[k]
		}
	}
	return len(a) < len(b)
}

func vRetractKey(l *Line) (lo, hi string) {
	if len(l.Token) == 1 {
		return l.Token[0], l.Token[0]
	}
	if len(l.Token) == 5 {
		return l.Token[1], l.Token[3]
	}
	return "", ""
}

// vBlockSorted asserts the documented order of one block: lexical by tokens;
// excludes by path then semantic version from go 1.21; retractions descending.
func vBlockSorted(b *LineBlock, semanticExclude bool) {
	for i := 0; i+1 < len(b.Line); i++ {
		x, y := b.Line[i], b.Line[i+1]
		switch {
		case b.Token[0] == "retract":
			lo1, hi1 := vRetractKey(x)
			lo2, hi2 := vRetractKey(y)
			c := semver.Compare(lo1, lo2)
			vAssert("retract-block-descending", c > 0 || c == 0 && semver.Compare(hi1, hi2) >= 0)
		case b.Token[0] == "exclude" && semanticExclude && len(x.Token) == 2 && len(y.Token) == 2:
			vAssert("exclude-block-path-then-semver", x.Token[0] < y.Token[0] || x.Token[0] == y.Token[0] && semver.Compare(x.Token[1], y.Token[1]) <= 0)
		default:
			vAssert("block-lexical-order", !vTokensLess(y.Token, x.Token))
		}
	}
}

// VerifC16SetRequire: after either bulk setter and Cleanup the file holds
// exactly the requested requirements, blocks are in their documented order,
// kept lines keep their comments, and the separate-indirect variant splits a
// sole uncommented line or block.
func VerifC16SetRequire() {
	si := vChoice("start", len(vC16Starts))
	f, err := Parse("go.mod", []byte(vC16Starts[si]), nil)
	if err != nil {
		panic(err)
	}
	kept := vFirstLines(f)
	separate := vChoice("separate", 2) == 1
	type want struct {
		p, v string
		ind  bool
	}
	var wants []want
	var req []*Require
	n := vChoice("nreq", vParam("maxreq", 3)+1)
	for i := 0; i < n; i++ {
		// the requested path is symbolic: which existing lines it aliases is decided by the solver
		w := want{"a.co/" + vSym("want.path", 1, `[a-d]`), vArgVer(), vChoice("indirect", 2) == 1}
		for _, o := range wants {
			vAssume(o.p != w.p) // distinct paths, as documented
		}
		wants = append(wants, w)
		req = append(req, &Require{Mod: moduleVersion(w.p, w.v), Indirect: w.ind})
	}
	f.Cleanup()
	vMapOrder(true) // the setters range over maps: explore every iteration order
	if separate {
		f.SetRequireSeparateIndirect(req)
	} else {
		f.SetRequire(req)
	}
	vMapOrder(false)
	f.Cleanup()
	out, err := f.Format()
	vAssert("format-ok", err == nil)
	g, err := Parse("go.mod", out, nil)
	vAssert("formatted-parses-strictly", err == nil && g != nil)
	if err != nil {
		return
	}
	vReach("set")
	// exactly the requested set, in the file and in the typed list
	vAssert("file-has-exactly-requested", len(g.Require) == len(wants) && vPermEq(len(wants), func(i, j int) bool {
		w, r := wants[i], g.Require[j]
		return vAnd(vAnd(w.p == r.Mod.Path, w.v == r.Mod.Version), w.ind == r.Indirect)
	}))
	vAssert("list-has-exactly-requested", len(f.Require) == len(wants) && vPermEq(len(wants), func(i, j int) bool {
		w, r := wants[i], f.Require[j]
		return vAnd(vAnd(w.p == r.Mod.Path, w.v == r.Mod.Version), w.ind == r.Indirect)
	}))
	// comments of kept lines survive
	for _, k := range kept {
		for _, r := range g.Require {
			if r.Mod.Path != k.path {
				continue
			}
			var have []Comment
			have = append(have, r.Syntax.Before...)
			vAssert("kept-line-leading-comments", vHasAll(have, k.before))
			got := ""
			if len(r.Syntax.Suffix) > 0 {
				got = vSuffixText(r.Syntax.Suffix[0].Token)
			}
			vAssert("kept-line-suffix-comment", got == k.suffix)
		}
	}
	// every block in documented order
	semanticExclude := g.Go != nil && semver.Compare("v"+g.Go.Version, "v1.21") >= 0
	for _, st := range g.Syntax.Stmt {
		if b, ok := st.(*LineBlock); ok {
			vBlockSorted(b, semanticExclude)
		}
	}
	// separate-indirect: a sole uncommented line or block is split
	if separate && (si == 0 || si == 1) {
		for _, st := range g.Syntax.Stmt {
			b, ok := st.(*LineBlock)
			if !ok || b.Token[0] != "require" {
				continue
			}
			direct, indirect := 0, 0
			for _, l := range b.Line {
				if isIndirect(l) {
					indirect++
				} else {
					direct++
				}
			}
			vAssert("direct-and-indirect-in-different-blocks", direct == 0 || indirect == 0)
		}
	}
}

type vWant struct {
	p, v string
	ind  bool
}

// vSetRound applies one bulk set with a symbolic request and returns the request.
func vSetRound(f *File, maxreq int) []vWant {
	separate := vChoice("separate", 2) == 1
	var wants []vWant
	var req []*Require
	n := vChoice("nreq", maxreq+1)
	for i := 0; i < n; i++ {
		w := vWant{"a.co/" + vSym("want.path", 1, `[a-d]`), vArgVer(), vChoice("indirect", 2) == 1}
		for _, o := range wants {
			vAssume(o.p != w.p)
		}
		wants = append(wants, w)
		req = append(req, &Require{Mod: moduleVersion(w.p, w.v), Indirect: w.ind})
	}
	f.Cleanup()
	vMapOrder(true)
	if separate {
		f.SetRequireSeparateIndirect(req)
	} else {
		f.SetRequire(req)
	}
	vMapOrder(false)
	f.Cleanup()
	return wants
}

// VerifC16Twice: two bulk sets in one session on the same file: the second
// request is what the file holds afterwards (a moved or rewritten line must
// still be the one the structured list points at).
func VerifC16Twice() {
	starts := []int{1, 2, 4}
	f, err := Parse("go.mod", []byte(vC16Starts[starts[vChoice("start", len(starts))]]), nil)
	if err != nil {
		panic(err)
	}
	vSetRound(f, vParam("maxreq", 2))
	wants := vSetRound(f, vParam("maxreq", 2))
	out, err := f.Format()
	vAssert("format-ok", err == nil)
	g, err := Parse("go.mod", out, nil)
	vAssert("formatted-parses-strictly", err == nil && g != nil)
	if err != nil {
		return
	}
	vReach("set-twice")
	vAssert("file-has-exactly-second-request", len(g.Require) == len(wants) && vPermEq(len(wants), func(i, j int) bool {
		w, r := wants[i], g.Require[j]
		return vAnd(vAnd(w.p == r.Mod.Path, w.v == r.Mod.Version), w.ind == r.Indirect)
	}))
	vAssert("list-has-exactly-second-request", len(f.Require) == len(wants) && vPermEq(len(wants), func(i, j int) bool {
		w, r := wants[i], f.Require[j]
		return vAnd(vAnd(w.p == r.Mod.Path, w.v == r.Mod.Version), w.ind == r.Indirect)
	}))
	for _, st := range g.Syntax.Stmt {
		if b, ok := st.(*LineBlock); ok {
			vBlockSorted(b, false)
		}
	}
}

var vC16WorkStarts = []string{
	"go 1.20\n",
	"go 1.20\n\nuse ./a // ua\n\nuse ./b\n",
	"go 1.21\n\nuse (\n\t// lead b\n\t./b\n\t./a\n\t./a\n)\n",
	"go 1.21\n\nuse ./c\n\nuse (\n\t./b\n\t// tail\n)\n",
}

// VerifC16SetUse: after SetUse and Cleanup the workspace uses exactly the requested directories.
func VerifC16SetUse() {
	f, err := ParseWork("go.work", []byte(vC16WorkStarts[vChoice("start", len(vC16WorkStarts))]), nil)
	if err != nil {
		panic(err)
	}
	var wants []string
	var dirs []*Use
	n := vChoice("nreq", vParam("maxreq", 3)+1)
	for i := 0; i < n; i++ {
		d := "./" + vSym("want.dir", 1, `[a-d]`)
		for _, o := range wants {
			vAssume(o != d)
		}
		wants = append(wants, d)
		dirs = append(dirs, &Use{Path: d})
	}
	f.Cleanup()
	vMapOrder(true)
	f.SetUse(dirs)
	vMapOrder(false)
	f.Cleanup()
	out := Format(f.Syntax)
	g, err := ParseWork("go.work", out, nil)
	vAssert("formatted-parses-strictly", err == nil && g != nil)
	if err != nil {
		return
	}
	vReach("set")
	vAssert("file-has-exactly-requested", len(g.Use) == len(wants) && vPermEq(len(wants), func(i, j int) bool { return wants[i] == g.Use[j].Path }))
	vAssert("list-has-exactly-requested", len(f.Use) == len(wants) && vPermEq(len(wants), func(i, j int) bool { return wants[i] == f.Use[j].Path }))
	for _, st := range g.Syntax.Stmt {
		if b, ok := st.(*LineBlock); ok {
			vBlockSorted(b, false)
		}
	}
}

func VerifC16Twin() {
	f, err := Parse("go.mod", []byte(vC16Starts[1]), nil)
	vAssume(err == nil)
	f.SetRequire([]*Require{{Mod: moduleVersion("a.co/a", vArgVer())}})
	f.Cleanup()
	vAssume(len(f.Require) == 1)
	vAssert("twin", false)
}
