//go:build verif

package tlog

import (
	"crypto/sha256"
	"unicode/utf8"
)

func init() {
	vRegister("C09Store", VerifC09Store)
	vRegister("C09RecordHash", VerifC09RecordHash)
	vRegister("C09Index", VerifC09Index)
	vRegister("C09IndexInv", VerifC09IndexInv)
	vRegister("C09TreeText", VerifC09TreeText)
	vRegister("C09RecordText", VerifC09RecordText)
	vRegister("C09Twin", VerifC09Twin)
}

// VerifC09Store: appending records one at a time yields a dense store whose
// every stored hash is the RFC 6962 hash of its complete subtree, with the
// documented length, and TreeHash(m) is the Merkle tree hash of the first m.
func VerifC09Store() {
	maxn := 1 + vChoice("n", vParam("maxn", 8))
	var leaves []Hash
	var st vStore
	for i := 0; i < maxn; i++ {
		h := Hash(vHash("leaf"))
		leaves = append(leaves, h)
		hs, err := StoredHashesForRecordHash(int64(i), h, st)
		vAssert("append-ok", err == nil)
		st = append(st, hs...)
		vAssert("count", int64(len(st)) == StoredHashCount(int64(i+1)))
	}
	n := maxn
	// every complete subtree (level, offset) is stored at its index
	seen := make([]bool, len(st))
	for level := 0; 1<<uint(level) <= n; level++ {
		for o := 0; (o+1)<<uint(level) <= n; o++ {
			idx := StoredHashIndex(level, int64(o))
			vAssert("index-in-range", idx >= 0 && idx < int64(len(st)))
			vAssert("index-unique", !seen[idx])
			seen[idx] = true
			vAssert("stored==MTH", st[idx] == vMTH(leaves[o<<uint(level):(o+1)<<uint(level)]))
			l2, o2 := SplitStoredHashIndex(idx)
			vAssert("split-inverse", l2 == level && o2 == int64(o))
		}
	}
	for i := range seen {
		vAssert("dense", seen[i])
	}
	for m := 1; m <= n; m++ {
		th, err := TreeHash(int64(m), st)
		vAssert("treehash-ok", err == nil)
		vAssert("treehash==MTH", th == vMTH(leaves[:m]))
	}
	vReach("store-built")
}

var vRecordLens = []int{0, 1, 31, 32, 55, 56, 63, 64, 65, 127, 128, 255, 256, 257}

// VerifC09RecordHash: leaf hash is SHA-256(0x00 || data) for every record
// length (including the block boundaries), node hash is SHA-256(0x01 || l || r),
// and the two never coincide.
func VerifC09RecordHash() {
	n := vRecordLens[vChoice("len", len(vRecordLens))]
	data := vBytes("data", n)
	got := RecordHash(data)
	want := sha256.Sum256(append([]byte{0x00}, data...))
	vReach("record")
	vAssert("RecordHash==SHA256(0x00||data)", got == Hash(want))
	l, r := Hash(vHash("l")), Hash(vHash("r"))
	var buf []byte
	buf = append(buf, 0x01)
	buf = append(buf, l[:]...)
	buf = append(buf, r[:]...)
	vAssert("NodeHash==SHA256(0x01||l||r)", NodeHash(l, r) == Hash(sha256.Sum256(buf)))
	vAssert("domain-separation", got != NodeHash(l, r))
	// the stored hashes of a record are those of its record hash
	hs, err := StoredHashes(0, data, vStore(nil))
	vAssert("StoredHashes", err == nil && len(hs) == 1 && hs[0] == got)
}

// VerifC09Index: position <-> (level, offset) identities on bit-vectors.
func VerifC09Index() {
	level := vChoice("level", vParam("maxlevel", 6)+1)
	n := vInt64("n")
	lim := int64(1) << uint(vParam("bits", 8))
	vAssume(n >= 0 && n < lim)
	idx := StoredHashIndex(level, n)
	l2, n2 := SplitStoredHashIndex(idx)
	vReach("index")
	vAssert("split(index(level,n))", l2 == level && n2 == n)
	if level == 0 {
		next := StoredHashIndex(0, n+1)
		vAssert("consecutive-leaves-gap", next > idx)
		vAssert("count==index(0,n)", StoredHashCount(n) == idx)
	} else {
		// a parent is stored right after its right child
		vAssert("parent-after-right-child", idx == StoredHashIndex(level-1, 2*n+1)+1)
	}
}

// VerifC09IndexInv: index(split(index)) == index for every position.
func VerifC09IndexInv() {
	idx := vInt64("index")
	lim := int64(1) << uint(vParam("bits", 8))
	vAssume(idx >= 0 && idx < lim)
	l, n := SplitStoredHashIndex(idx)
	vReach("split")
	vAssert("level>=0", l >= 0 && n >= 0)
	vAssert("index(split(index))", StoredHashIndex(l, n) == idx)
}

// VerifC09TreeText: a tree head survives its text encoding.
func VerifC09TreeText() {
	n := vInt64("N")
	lim := int64(1) << uint(vParam("bits", 20))
	vAssume(n >= 0 && n < lim)
	h := Hash(vHash("H"))
	text := FormatTree(Tree{N: n, Hash: h})
	t2, err := ParseTree(text)
	vReach("formatted")
	vAssert("parse-ok", err == nil)
	vAssert("roundtrip-N", t2.N == n)
	vAssert("roundtrip-hash", t2.Hash == h)
	h2, err := ParseHash(h.String())
	vAssert("ParseHash-ok", err == nil)
	vAssert("ParseHash", h2 == h)
}

// VerifC09RecordText: records survive their text encoding.
func VerifC09RecordText() {
	id := vInt64("id")
	vAssume(id >= 0 && id < int64(vParam("maxid", 100000)))
	text := vBytes("text", 1+vChoice("len", vParam("maxlen", 4)))
	msg, err := FormatRecord(id, text)
	vAssert("accepted==valid-text", (err == nil) == vRefValidRecordText(text))
	if err != nil {
		vReach("invalid-text")
		return
	}
	vReach("valid-text")
	id2, text2, rest, err := ParseRecord(msg)
	vAssert("parse-ok", err == nil)
	vAssert("id", id2 == id)
	vAssert("text", string(text2) == string(text))
	vAssert("rest-empty", len(rest) == 0)
}

// vRefValidRecordText: the documented rule for record text: valid UTF-8, no
// ASCII control characters other than newline, a terminating newline, and no
// blank lines.
func vRefValidRecordText(text []byte) bool {
	if len(text) == 0 || text[len(text)-1] != '\n' {
		return false
	}
	if !utf8.Valid(text) {
		return false
	}
	for i := 0; i < len(text); i++ {
		if text[i] < 0x20 && text[i] != '\n' {
			return false
		}
		if i > 0 && text[i] == '\n' && text[i-1] == '\n' {
			return false
		}
	}
	return true
}

func VerifC09Twin() {
	text := vBytes("text", 3)
	msg, err := FormatRecord(7, text)
	vAssume(err == nil)
	_, _, _, err = ParseRecord(msg)
	vAssume(err == nil)
	vAssert("twin", false)
}
