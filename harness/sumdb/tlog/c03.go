//go:build verif

package tlog

func init() {
	vRegister("C03Complete", VerifC03Complete)
	vRegister("C03SoundRecord", VerifC03SoundRecord)
	vRegister("C03SoundTree", VerifC03SoundTree)
	vRegister("C03Range", VerifC03Range)
	vRegister("C03Twin", VerifC03Twin)
}

type vStore []Hash

func (s vStore) ReadHashes(ix []int64) ([]Hash, error) {
	out := make([]Hash, 0, len(ix))
	for _, i := range ix {
		out = append(out, s[i])
	}
	return out, nil
}

// vBuild appends t arbitrary leaf hashes through the real storage code.
func vBuild(t int) (leaves []Hash, st vStore) {
	for i := 0; i < t; i++ {
		h := Hash(vHash("leaf"))
		leaves = append(leaves, h)
		hs, err := StoredHashesForRecordHash(int64(i), h, st)
		if err != nil {
			panic(err)
		}
		st = append(st, hs...)
	}
	return
}

// RFC 6962 section 2.1: Merkle tree hash of a non-empty list of leaf hashes.
func vMTH(leaves []Hash) Hash {
	if len(leaves) == 1 {
		return leaves[0]
	}
	k := 1
	for k*2 < len(leaves) {
		k *= 2
	}
	return NodeHash(vMTH(leaves[:k]), vMTH(leaves[k:]))
}

// RFC 6962 section 2.1.1: PATH(m, D[n]).
func vRefPath(m int, leaves []Hash) []Hash {
	n := len(leaves)
	if n == 1 {
		return nil
	}
	k := 1
	for k*2 < n {
		k *= 2
	}
	if m < k {
		return append(vRefPath(m, leaves[:k]), vMTH(leaves[k:]))
	}
	return append(vRefPath(m-k, leaves[k:]), vMTH(leaves[:k]))
}

// RFC 6962 section 2.1.2: PROOF(m, D[n]) = SUBPROOF(m, D[n], true).
func vRefSubproof(m int, leaves []Hash, b bool) []Hash {
	n := len(leaves)
	if m == n {
		if b {
			return nil
		}
		return []Hash{vMTH(leaves)}
	}
	k := 1
	for k*2 < n {
		k *= 2
	}
	if m <= k {
		return append(vRefSubproof(m, leaves[:k], b), vMTH(leaves[k:]))
	}
	return append(vRefSubproof(m-k, leaves[k:], false), vMTH(leaves[:k]))
}

// RFC 9162 section 2.1.3.2: verifying an inclusion proof.
func vRefVerifyInclusion(p []Hash, t int64, root Hash, n int64, leaf Hash) bool {
	if t < 0 || n < 0 || n >= t {
		return false
	}
	fn, sn := n, t-1
	r := leaf
	for _, h := range p {
		if sn == 0 {
			return false
		}
		if fn&1 == 1 || fn == sn {
			r = NodeHash(h, r)
			if fn&1 == 0 {
				for fn&1 == 0 && fn != 0 {
					fn >>= 1
					sn >>= 1
				}
			}
		} else {
			r = NodeHash(r, h)
		}
		fn >>= 1
		sn >>= 1
	}
	return sn == 0 && r == root
}

// RFC 9162 section 2.1.4.2: verifying consistency between two tree heads.
func vRefVerifyConsistency(p []Hash, second int64, secondHash Hash, first int64, firstHash Hash) bool {
	if first < 1 || second < 1 || first > second {
		return false
	}
	if first == second {
		return len(p) == 0 && firstHash == secondHash
	}
	if len(p) == 0 {
		return false
	}
	if first&(first-1) == 0 {
		p = append([]Hash{firstHash}, p...)
	}
	fn, sn := first-1, second-1
	for fn&1 == 1 {
		fn >>= 1
		sn >>= 1
	}
	fr, sr := p[0], p[0]
	for _, c := range p[1:] {
		if sn == 0 {
			return false
		}
		if fn&1 == 1 || fn == sn {
			fr = NodeHash(c, fr)
			sr = NodeHash(c, sr)
			for fn&1 == 0 && fn != 0 {
				fn >>= 1
				sn >>= 1
			}
		} else {
			sr = NodeHash(sr, c)
		}
		fn >>= 1
		sn >>= 1
	}
	return fr == firstHash && sr == secondHash && sn == 0
}

func vSameHashes(a, b []Hash) bool {
	if len(a) != len(b) {
		return false
	}
	ok := true
	for i := range a {
		ok = vAnd(ok, a[i] == b[i])
	}
	return ok
}

// VerifC03Complete: proofs are exactly the RFC 6962 audit path / consistency
// proof and are accepted by the checkers, for arbitrary leaf hashes.
func VerifC03Complete() {
	t := 1 + vChoice("t", vParam("maxt", 8))
	leaves, st := vBuild(t)
	root, err := TreeHash(int64(t), st)
	vAssert("treehash-ok", err == nil)
	vAssert("treehash==MTH", root == vMTH(leaves))
	if vChoice("kind", 2) == 0 {
		n := vChoice("n", t)
		p, err := ProveRecord(int64(t), int64(n), st)
		vReach("record-proof")
		vAssert("prove-record-ok", err == nil)
		vAssert("record-proof==PATH", vSameHashes(p, vRefPath(n, leaves)))
		vAssert("record-proof-accepted", CheckRecord(p, int64(t), root, int64(n), leaves[n]) == nil)
	} else {
		n := 1 + vChoice("n", t)
		p, err := ProveTree(int64(t), int64(n), st)
		vReach("tree-proof")
		vAssert("prove-tree-ok", err == nil)
		vAssert("tree-proof==PROOF", vSameHashes(p, vRefSubproof(n, leaves, true)))
		old, err := TreeHash(int64(n), st)
		vAssert("old-treehash-ok", err == nil)
		vAssert("old-treehash==MTH", old == vMTH(leaves[:n]))
		vAssert("tree-proof-accepted", CheckTree(p, int64(t), root, int64(n), old) == nil)
	}
}

func vFreeProof(max int) []Hash {
	k := vChoice("prooflen", max+1)
	p := make([]Hash, k)
	for i := range p {
		p[i] = Hash(vHash("p"))
	}
	return p
}

// VerifC03SoundRecord: CheckRecord accepts a tuple iff the RFC 9162 algorithm does.
func VerifC03SoundRecord() {
	maxt := vParam("maxt", 8)
	t := int64(vChoice("t", maxt+2)) - 1     // -1 .. maxt
	n := int64(vChoice("n", maxt+3)) - 1     // -1 .. maxt+1
	p := vFreeProof(vParam("maxproof", 5))
	th, h := Hash(vHash("root")), Hash(vHash("leaf"))
	got := CheckRecord(RecordProof(p), t, th, n, h) == nil
	want := vRefVerifyInclusion(p, t, th, n, h)
	if want {
		vReach("accepted")
	} else {
		vReach("rejected")
	}
	vAssert("CheckRecord==RFC9162", got == want)
}

// VerifC03SoundTree: CheckTree accepts a tuple iff the RFC 9162 algorithm does.
func VerifC03SoundTree() {
	maxt := vParam("maxt", 8)
	t := int64(vChoice("t", maxt+2)) - 1
	n := int64(vChoice("n", maxt+3)) - 1
	p := vFreeProof(vParam("maxproof", 5))
	th, h := Hash(vHash("root")), Hash(vHash("old"))
	got := CheckTree(TreeProof(p), t, th, n, h) == nil
	want := vRefVerifyConsistency(p, t, th, n, h)
	if want {
		vReach("accepted")
	} else {
		vReach("rejected")
	}
	vAssert("CheckTree==RFC9162", got == want)
}

// VerifC03Range: out-of-range sizes and indexes are refused with an error, never a crash.
func VerifC03Range() {
	t, n := vInt64("t"), vInt64("n")
	bound := int64(vParam("maxt", 8))
	vAssume(t <= bound)
	p := vFreeProof(vParam("maxproof", 2))
	th, h := Hash(vHash("root")), Hash(vHash("h"))
	_, st := vBuild(int(bound))
	errR := CheckRecord(RecordProof(p), t, th, n, h)
	if t < 0 || n < 0 || n >= t {
		vReach("record-out-of-range")
		vAssert("CheckRecord-refuses", errR != nil)
		_, e := ProveRecord(t, n, st)
		vAssert("ProveRecord-refuses", e != nil)
	}
	errT := CheckTree(TreeProof(p), t, th, n, h)
	if t < 1 || n < 1 || n > t {
		vReach("tree-out-of-range")
		vAssert("CheckTree-refuses", errT != nil)
		_, e := ProveTree(t, n, st)
		vAssert("ProveTree-refuses", e != nil)
	}
}

func VerifC03Twin() {
	p := vFreeProof(2)
	th, h := Hash(vHash("root")), Hash(vHash("leaf"))
	vAssume(len(p) == 2)
	vAssume(CheckRecord(RecordProof(p), 3, th, 1, h) == nil)
	vAssert("twin", false)
}
