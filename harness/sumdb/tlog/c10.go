//go:build verif

package tlog

func init() {
	vRegister("C10Honest", VerifC10Honest)
	vRegister("C10Forged", VerifC10Forged)
	vRegister("C10BadLength", VerifC10BadLength)
	vRegister("C10Reread", VerifC10Reread)
	vRegister("C10Publish", VerifC10Publish)
	vRegister("C10Path", VerifC10Path)
	vRegister("C10ParsePath", VerifC10ParsePath)
	vRegister("C10Twin", VerifC10Twin)
}

// vTiles is the TileReader double. In honest mode it serves the true tile
// contents read from the store built by the real append code. In forged mode
// every byte of every served tile is a free solver variable (which includes the
// honest answer and every corruption of any subset of tiles).
type vTiles struct {
	h        int
	st       vStore
	forged   bool
	badIndex int // tile whose length is wrong (-1: none)
	badDelta int // length change in bytes
	dropLast bool
	reads    int
	served   []Tile
	data     [][]byte
	saved    []Tile
	savedDat [][]byte
}

func (r *vTiles) Height() int { return r.h }

func (r *vTiles) ReadTiles(tiles []Tile) ([][]byte, error) {
	r.reads++
	var out [][]byte
	for i, t := range tiles {
		var d []byte
		if r.forged {
			for j := 0; j < t.W; j++ {
				h := vHash("tile")
				d = append(d, h[:]...)
			}
		} else {
			var err error
			d, err = ReadTileData(t, r.st)
			if err != nil {
				return nil, err
			}
		}
		if i == r.badIndex {
			if r.badDelta < 0 {
				d = d[:len(d)+r.badDelta]
			} else {
				for k := 0; k < r.badDelta; k++ {
					d = append(d, vByte("extra"))
				}
			}
		}
		out = append(out, d)
	}
	r.served = append(r.served, tiles...)
	r.data = append(r.data, out...)
	if r.dropLast {
		out = out[:len(out)-1]
	}
	return out, nil
}

func (r *vTiles) SaveTiles(tiles []Tile, data [][]byte) {
	r.saved = append(r.saved, tiles...)
	r.savedDat = append(r.savedDat, data...)
}

func vSameBytes(a, b []byte) bool {
	if len(a) != len(b) {
		return false
	}
	ok := true
	for i := 0; i+HashSize <= len(a); i += HashSize {
		var x, y Hash
		copy(x[:], a[i:i+HashSize])
		copy(y[:], b[i:i+HashSize])
		ok = vAnd(ok, x == y)
	}
	return ok
}

// vTreeAndIndexes chooses a tree size, a tile height and up to maxidx stored
// hash positions inside the tree.
func vTreeAndIndexes() (n int, h int, st vStore, root Hash, indexes []int64) {
	n = 1 + vChoice("n", vParam("maxn", 8))
	h = 1 + vChoice("height", vParam("maxh", 3))
	_, st = vBuild(n)
	root, err := TreeHash(int64(n), st)
	if err != nil {
		panic(err)
	}
	k := 1 + vChoice("nidx", vParam("maxidx", 2))
	for i := 0; i < k; i++ {
		indexes = append(indexes, int64(vChoice("index", len(st))))
	}
	return
}

// VerifC10Honest: reading through honestly served tiles returns the true
// stored hashes and saves exactly the served tiles.
func VerifC10Honest() {
	n, h, st, root, indexes := vTreeAndIndexes()
	tr := &vTiles{h: h, st: st, badIndex: -1}
	hr := TileHashReader(Tree{N: int64(n), Hash: root}, tr)
	hs, err := hr.ReadHashes(indexes)
	vReach("honest-read")
	vAssert("honest-no-error", err == nil)
	vAssert("honest-count", len(hs) == len(indexes))
	for i := range hs {
		vAssert("honest-hash==stored", hs[i] == st[indexes[i]])
	}
	vAssert("saved==served", len(tr.saved) == len(tr.served))
	for i := range tr.saved {
		vAssert("saved-tile==served-tile", tr.saved[i] == tr.served[i])
		vAssert("saved-data==served-data", vSameBytes(tr.savedDat[i], tr.data[i]))
	}
	// every single position is readable through its least-width tile
	for x := int64(0); x < int64(len(st)); x++ {
		t := TileForIndex(h, x)
		data, err := ReadTileData(t, st)
		vAssert("tiledata-ok", err == nil && len(data) == t.W*HashSize)
		got, err := HashFromTile(t, data, x)
		vAssert("HashFromTile==stored", err == nil && got == st[x])
	}
}

// VerifC10Forged: whatever bytes are served for the requested tiles, the read
// fails or returns only true hashes, and every tile passed on for saving is
// byte-identical to the true tile.
func VerifC10Forged() {
	n, h, st, root, indexes := vTreeAndIndexes()
	tr := &vTiles{h: h, st: st, forged: true, badIndex: -1}
	hr := TileHashReader(Tree{N: int64(n), Hash: root}, tr)
	hs, err := hr.ReadHashes(indexes)
	if err != nil {
		vReach("forged-rejected")
		vAssert("nothing-saved-on-error", len(tr.saved) == 0)
		return
	}
	vReach("forged-accepted")
	vAssert("forged-count", len(hs) == len(indexes))
	for i := range hs {
		vAssert("returned-hash-is-true", hs[i] == st[indexes[i]])
	}
	for i, t := range tr.saved {
		truth, err := ReadTileData(t, st)
		vAssert("saved-tile-exists", err == nil)
		vAssert("saved-tile-is-true", vSameBytes(tr.savedDat[i], truth))
	}
	// every tile that was fetched and used is among the saved ones
	vAssert("all-fetched-saved", len(tr.saved) == len(tr.served))
}

// VerifC10Reread: a second read through the same reader is authenticated from
// scratch: whatever is served the second time (every byte free), the read
// fails or returns true hashes and saves only true tiles.
func VerifC10Reread() {
	n, h, st, root, indexes := vTreeAndIndexes()
	tr := &vTiles{h: h, st: st, badIndex: -1}
	hr := TileHashReader(Tree{N: int64(n), Hash: root}, tr)
	_, err := hr.ReadHashes(indexes)
	vAssert("first-honest-read-ok", err == nil)
	tr.forged = true
	first := len(tr.saved)
	idx2 := []int64{int64(vChoice("index2", len(st)))}
	hs, err := hr.ReadHashes(idx2)
	if err != nil {
		vReach("reread-rejected")
		vAssert("nothing-saved-on-error", len(tr.saved) == first)
		return
	}
	vReach("reread-accepted")
	vAssert("reread-hash-is-true", len(hs) == 1 && hs[0] == st[idx2[0]])
	for i := first; i < len(tr.saved); i++ {
		truth, err := ReadTileData(tr.saved[i], st)
		vAssert("saved-tile-exists", err == nil)
		vAssert("reread-saved-tile-is-true", vSameBytes(tr.savedDat[i], truth))
	}
}

// VerifC10BadLength: a truncated or extended tile, or a short result list,
// makes the read fail and saves nothing.
func VerifC10BadLength() {
	n, h, st, root, indexes := vTreeAndIndexes()
	tr := &vTiles{h: h, st: st, badIndex: -1}
	switch vChoice("fault", 5) {
	case 0:
		tr.badIndex, tr.badDelta = vChoice("which", 3), -HashSize
	case 1:
		tr.badIndex, tr.badDelta = vChoice("which", 3), HashSize
	case 2:
		tr.badIndex, tr.badDelta = vChoice("which", 3), -1
	case 3:
		tr.badIndex, tr.badDelta = vChoice("which", 3), 1
	case 4:
		tr.dropLast = true
	}
	hr := TileHashReader(Tree{N: int64(n), Hash: root}, tr)
	_, err := hr.ReadHashes(indexes)
	vAssume(tr.dropLast || tr.badIndex < len(tr.served))
	vReach("bad-length-served")
	vAssert("bad-length-rejected", err != nil)
	vAssert("bad-length-nothing-saved", len(tr.saved) == 0)
}

// vCovered reports whether tile t (as requested by a reader) can be served
// from the published set: same coordinates, at least as wide.
func vCovered(t Tile, pub []Tile) bool {
	for _, p := range pub {
		if p.H == t.H && p.L == t.L && p.N == t.N && p.W >= t.W {
			return true
		}
	}
	return false
}

// VerifC10Publish: the tiles NewTiles tells a publisher to publish over any
// two growth steps 0 -> old -> new are sufficient for every read of tree new.
func VerifC10Publish() {
	maxn := int64(vParam("maxn", 8))
	h := 1 + vChoice("height", vParam("maxh", 3))
	old, new := vInt64("old"), vInt64("new")
	vAssume(0 <= old && old <= new && 1 <= new && new <= maxn)
	pub := append(NewTiles(h, 0, old), NewTiles(h, old, new)...)
	// publishing in one step asks for the final tiles only
	for _, t := range NewTiles(h, 0, new) {
		vAssert("one-step-covered-by-two-steps", vCovered(t, pub))
	}
	nn := int(new)
	_, st := vBuild(nn)
	root, err := TreeHash(new, st)
	vAssert("treehash-ok", err == nil)
	tr := &vTiles{h: h, st: st, badIndex: -1}
	hr := TileHashReader(Tree{N: new, Hash: root}, tr)
	x := int64(vChoice("index", len(st)))
	_, err = hr.ReadHashes([]int64{x})
	vReach("publish-read")
	vAssert("publish-read-ok", err == nil)
	for _, t := range tr.served {
		vAssert("requested-tile-published", vCovered(t, pub))
	}
	for _, t := range pub {
		vAssert("published-tile-wellformed", t.H == h && t.L >= 0 && t.N >= 0 && t.W >= 1 && t.W <= 1<<uint(h))
		vAssert("published-tile-inside-tree", (t.N<<uint(h)+int64(t.W))<<uint(h*t.L) <= new)
	}
}

// VerifC10Path: tile coordinates survive their path encoding.
func VerifC10Path() {
	h := 1 + vChoice("H", vParam("maxH", 4))
	if vChoice("bigH", 2) == 1 {
		h = 30
	}
	l := vChoice("L", vParam("maxL", 3)+2) - 1
	if vChoice("bigL", 2) == 1 {
		l = 63
	}
	n := vInt64("N")
	vAssume(n >= 0 && n < int64(vParam("maxN", 2000)))
	w := vInt("W")
	full := 1 << uint(h)
	vAssume(w >= 1 && (w == full || w < full && w < vParam("maxW", 100)))
	t := Tile{H: h, L: l, N: n, W: w}
	p := t.Path()
	t2, err := ParseTilePath(p)
	vReach("path")
	vAssert("parse(path)-ok", err == nil)
	vAssert("parse(path)==tile", t2 == t)
}

// VerifC10ParsePath: a string is accepted as a tile path only if it is the
// path of the tile it parses to, and the tile is well formed. Strings are the
// instances of three path skeletons with symbolic characters in every field.
func VerifC10ParsePath() {
	field := func(name string, n int) string {
		f := vString(name, n)
		vAssume(vMatch(`^[0-9x+.p-]*$`, f))
		return f
	}
	hs := field("h", 1+vChoice("hlen", vParam("maxhlen", 1)))
	var ls string
	if vChoice("data", 2) == 1 {
		ls = "data"
	} else {
		ls = field("l", 1+vChoice("llen", vParam("maxllen", 1)))
	}
	s := "tile/" + hs + "/" + ls + "/"
	switch vChoice("form", vParam("forms", 2)) {
	case 0:
		s += field("n", 3)
	case 1:
		s += field("n", 3) + ".p/" + field("w", 1+vChoice("wlen", vParam("maxwlen", 1)))
	case 2:
		s += field("x", 4) + "/" + field("n", 3)
	}
	t, err := ParseTilePath(s)
	if err != nil {
		vReach("path-rejected")
		return
	}
	vReach("path-accepted")
	vAssert("accepted-path-is-canonical", t.Path() == s)
	vAssert("accepted-tile-wellformed", t.H >= 1 && t.H <= 30 && t.L >= -1 && t.N >= 0 && t.W >= 1 && t.W <= 1<<uint(t.H))
}

func VerifC10Twin() {
	n, h := 7, 2
	_, st := vBuild(n)
	root, _ := TreeHash(int64(n), st)
	tr := &vTiles{h: h, st: st, forged: true, badIndex: -1}
	hr := TileHashReader(Tree{N: int64(n), Hash: root}, tr)
	_, err := hr.ReadHashes([]int64{10})
	vAssume(err == nil)
	vAssert("twin", false)
}
