//go:build verif

package sumdb

import (
	"bytes"
	"errors"
	"strings"

	"golang.org/x/mod/sumdb/note"
	"golang.org/x/mod/sumdb/tlog"
)

// ---- the key pair: a real note key (parsed by the real NewSigner/NewVerifier);
// the symbolic engine abstracts Ed25519 itself: Sign hands out a distinct
// constant per message and Verify accepts exactly those (unforgeability) ----

const (
	vSKeyText = "PRIVATE+KEY+sum.test+c089489d+AQcHBwcHBwcHBwcHBwcHBwcHBwcHBwcHBwcHBwcHBwcH"
	vVKeyText = "sum.test+c089489d+AepKbGPinFIKvvVQexMuxfmVR3auvr57kkIe6mkURtIs"
)

type vKey struct {
	name   string
	hash   uint32
	signer note.Signer
}

// vInitKey parses the key pair; the key is assumed well formed (its hash field
// matches name and key: a fact about SHA-256 the abstraction cannot compute).
func vInitKey(k *vKey) {
	if k.signer != nil {
		return
	}
	s, err := note.NewSigner(vSKeyText)
	vAssume(err == nil)
	_, err = note.NewVerifier(vVKeyText)
	vAssume(err == nil)
	k.signer = s
}

// ---- an honest log ----

type vHashes []tlog.Hash

func (s vHashes) ReadHashes(ix []int64) ([]tlog.Hash, error) {
	out := make([]tlog.Hash, 0, len(ix))
	for _, i := range ix {
		out = append(out, s[i])
	}
	return out, nil
}

type vLogT struct {
	name  string
	texts [][]byte
	store vHashes
	heads map[int64][]byte // size -> signed tree head message
	trees map[int64]tlog.Tree
}

func vRecordText(log string, i int) []byte {
	v := "v1.0." + string(rune('0'+i))
	return []byte("m.co/" + log + " " + v + " h1:AAAA" + log + v + "=\nm.co/" + log + " " + v + "/go.mod h1:BBBB" + log + v + "=\n")
}

// vBuildLog builds a log of n records. The first `shared` records are those of
// log "a"; later ones carry the log's own name (so two logs fork after `shared`).
func vBuildLog(name string, n, shared int, key *vKey) *vLogT {
	l := &vLogT{name: name, heads: map[int64][]byte{}, trees: map[int64]tlog.Tree{}}
	for i := 0; i < n; i++ {
		who := name
		if i < shared {
			who = "a"
		}
		text := vRecordText(who, i)
		l.texts = append(l.texts, text)
		hs, err := tlog.StoredHashes(int64(i), text, l.store)
		if err != nil {
			panic(err)
		}
		l.store = append(l.store, hs...)
		th, err := tlog.TreeHash(int64(i+1), l.store)
		if err != nil {
			panic(err)
		}
		tree := tlog.Tree{N: int64(i + 1), Hash: th}
		l.heads[tree.N] = vSignTree(tree, key)
		l.trees[tree.N] = tree
	}
	return l
}

func vSignTree(tree tlog.Tree, key *vKey) []byte {
	vInitKey(key)
	msg, err := note.Sign(&note.Note{Text: string(tlog.FormatTree(tree))}, key.signer)
	if err != nil {
		panic(err)
	}
	return msg
}

func (l *vLogT) tile(t tlog.Tile) ([]byte, bool) {
	if t.L < 0 || (t.N<<uint(t.H)+int64(t.W))<<uint(t.H*t.L) > int64(len(l.texts)) {
		return nil, false
	}
	data, err := tlog.ReadTileData(t, l.store)
	if err != nil {
		return nil, false
	}
	return data, true
}

// ---- ClientOps double ----

type vWrite struct {
	file     string
	old, new []byte
}

type vOps struct {
	honest    *vLogT // tiles served honestly come from this log (nil: every tile byte is free)
	freeTiles bool
	// dropPartial: the server no longer has partial tiles (404); the full tile it
	// serves instead has the true hashes in the part the client asked for and
	// arbitrary bytes after it
	dropPartial  bool
	lastPartialW int
	config    []byte // the shared <name>/latest file
	cache     map[string][]byte
	lookup    func(path string) ([]byte, error)

	// interference by other clients sharing the configuration
	beforeWrite func(o *vOps) // runs before a WriteConfig is applied
	conflicts   int

	configWrites []vWrite
	cacheWrites  []vWrite
	lastRead     []byte
	security     []string
	remoteReads  []string
	cacheReads   []string
	configReads  int
}

var errVNoFile = errors.New("no such file")

func (o *vOps) ReadRemote(path string) ([]byte, error) {
	o.remoteReads = append(o.remoteReads, path)
	if strings.HasPrefix(path, "/lookup/") {
		if o.lookup == nil {
			return nil, errVNoFile
		}
		return o.lookup(path)
	}
	t, err := tlog.ParseTilePath(strings.TrimPrefix(path, "/"))
	if err != nil {
		return nil, err
	}
	if o.dropPartial && o.honest != nil {
		if t.W < 1<<uint(t.H) {
			o.lastPartialW = t.W
			return nil, errVNoFile
		}
		if o.lastPartialW > 0 {
			part := t
			part.W = o.lastPartialW
			o.lastPartialW = 0
			if d, ok := o.honest.tile(part); ok {
				d = append([]byte{}, d...)
				for j := part.W; j < t.W; j++ {
					h := vHash("tail")
					d = append(d, h[:]...)
				}
				return d, nil
			}
		}
	}
	if o.freeTiles {
		var d []byte
		for j := 0; j < t.W; j++ {
			h := vHash("tile")
			d = append(d, h[:]...)
		}
		return d, nil
	}
	if o.honest != nil {
		if d, ok := o.honest.tile(t); ok {
			return d, nil
		}
	}
	return nil, errVNoFile
}

func (o *vOps) ReadConfig(file string) ([]byte, error) {
	o.configReads++
	if strings.HasSuffix(file, "/latest") {
		o.lastRead = o.config
		return o.config, nil
	}
	if file == "key" {
		return []byte(vVKeyText + "\n"), nil
	}
	return nil, errVNoFile
}

func (o *vOps) WriteConfig(file string, old, new []byte) error {
	if o.beforeWrite != nil {
		o.beforeWrite(o)
	}
	if !bytes.Equal(old, o.config) {
		o.conflicts++
		return ErrWriteConflict
	}
	o.configWrites = append(o.configWrites, vWrite{file, old, new})
	o.config = new
	return nil
}

func (o *vOps) ReadCache(file string) ([]byte, error) {
	o.cacheReads = append(o.cacheReads, file)
	if d, ok := o.cache[file]; ok {
		return d, nil
	}
	return nil, errVNoFile
}

func (o *vOps) WriteCache(file string, data []byte) {
	o.cacheWrites = append(o.cacheWrites, vWrite{file: file, new: data})
	if o.cache == nil {
		o.cache = map[string][]byte{}
	}
	o.cache[file] = data
}

func (o *vOps) Log(msg string)           {}
func (o *vOps) SecurityError(msg string) { o.security = append(o.security, msg) }

// vNewClient creates a client and runs its real initialisation (key parsing,
// reading and merging the stored head).
func vNewClient(ops *vOps, key *vKey, height int) (*Client, error) {
	vInitKey(key)
	c := NewClient(ops)
	c.SetTileHeight(height)
	if err := c.init(); err != nil {
		return nil, err
	}
	return c, nil
}

// ---- truth about signed heads ----

type vHead struct {
	log  string
	size int64
}

// vWhich identifies a message as a signed head of log a or log b (b only beyond the shared prefix).
func vWhich(msg []byte, a, b *vLogT) (vHead, bool) {
	if len(msg) == 0 {
		return vHead{"", 0}, true
	}
	for n, m := range a.heads {
		if bytes.Equal(m, msg) {
			return vHead{"a", n}, true
		}
	}
	if b != nil {
		for n, m := range b.heads {
			if bytes.Equal(m, msg) {
				return vHead{"b", n}, true
			}
		}
	}
	return vHead{}, false
}

// vPrefixOf: is tree x a prefix of tree y, given that the logs share exactly `shared` records?
func vPrefixOf(x, y vHead, shared int64) bool {
	if x.size > y.size {
		return false
	}
	if x.size == 0 {
		return true
	}
	return x.log == y.log || x.size <= shared
}

func vIndent(b []byte) []byte { return bytes.Replace(b, []byte("\n"), []byte("\n\t"), -1) }

func init() {
	vRegister("C13Timeline", VerifC13Timeline)
	vRegister("C13SharedConfig", VerifC13SharedConfig)
	vRegister("C13Twin", VerifC13Twin)
}

// vCheckStep checks one presentation of a signed head (msg) to a client whose
// stored head was `before`: the head only moves forward along one log, an
// inconsistent head is refused with the stored head unchanged, and a security
// error carries both signed heads.
func vCheckStep(c *Client, ops *vOps, a, b *vLogT, shared int64, before vHead, beforeMsg []byte, msg []byte, err error) vHead {
	presented, known := vWhich(msg, a, b)
	after, ok := vWhich(c.latestMsg, a, b)
	vAssert("latest-is-a-signed-head", ok)
	vAssert("latest-tree-matches-message", after.size == c.latest.N)
	vAssert("latest-only-moves-forward-along-one-log", vPrefixOf(before, after, shared))
	if !known {
		vReach("unsigned-presented")
		vAssert("unsigned-head-refused", err != nil && after == before)
		return after
	}
	consistent := vPrefixOf(before, presented, shared) || vPrefixOf(presented, before, shared)
	if !consistent {
		vReach("fork-presented")
		vAssert("inconsistent-head-refused", err != nil)
		vAssert("stored-head-unchanged-on-fork", after == before && bytes.Equal(c.latestMsg, beforeMsg))
		if err == ErrSecurity {
			vReach("security-error")
			vAssert("security-callback-called", len(ops.security) >= 1)
			if len(ops.security) >= 1 {
				report := ops.security[len(ops.security)-1]
				older, newer := msg, beforeMsg
				if presented.size > before.size {
					older, newer = beforeMsg, msg
				}
				want := "SECURITY ERROR\ngo.sum database server misbehavior detected!\n\nold database:\n\t" + string(vIndent(older)) + "\nnew database:\n\t" + string(vIndent(newer)) + "\n"
				vAssert("security-report-has-both-signed-heads", strings.HasPrefix(report, want))
			}
		} else {
			vAssert("no-security-callback-without-ErrSecurity", len(ops.security) == 0)
		}
		return after
	}
	if err == nil {
		vReach("consistent-accepted")
		if presented.size > before.size {
			vAssert("accepted-newer-head-installed", after == presented)
		} else {
			vAssert("older-head-leaves-latest", after == before)
		}
	} else {
		vReach("consistent-but-failed")
		vAssert("failed-merge-leaves-latest", after == before)
		vAssert("no-false-security-error", err != ErrSecurity && len(ops.security) == 0)
	}
	return after
}

// vCheckConfigWrites: every WriteConfig replaced exactly what was read, with a
// signed head that contains the replaced one as a prefix.
func vCheckConfigWrites(ops *vOps, a, b *vLogT, shared int64) {
	for _, w := range ops.configWrites {
		o, ok1 := vWhich(w.old, a, b)
		n, ok2 := vWhich(w.new, a, b)
		vAssert("config-write-is-signed-head", ok1 && ok2)
		vAssert("config-only-moves-forward-along-one-log", vPrefixOf(o, n, shared) && n.size >= o.size)
	}
}

// VerifC13Timeline: two logs sharing a prefix, signed by the same key; a
// client (fresh, or restarted from any stored head) is presented 1..maxsteps
// signed heads of either log, older or newer, with every tile byte served free.
func VerifC13Timeline() {
	key := &vKey{name: "sum.test", hash: 0x01020304}
	na := 2 + vChoice("sizeA", vParam("maxsize", 4)-1)
	shared := vChoice("shared", na)
	nb := shared + 1 + vChoice("extraB", vParam("maxsize", 4)-shared)
	a := vBuildLog("a", na, na, key)
	b := vBuildLog("b", nb, shared, key)
	height := 1 + vChoice("height", vParam("maxh", 2))
	ops := &vOps{freeTiles: true}
	// the stored head: empty or any head of log a
	s0 := vChoice("stored", na+1)
	if s0 > 0 {
		ops.config = a.heads[int64(s0)]
	}
	if vChoice("warmcache", 2) == 1 {
		ops.cache = map[string][]byte{}
		for _, t := range tlog.NewTiles(height, 0, int64(na)) {
			if d, ok := a.tile(t); ok {
				ops.cache["sum.test/"+t.Path()] = d
			}
		}
	}
	c, err := vNewClient(ops, key, height)
	if err != nil {
		// with arbitrary tile bytes even re-checking the stored head can fail
		vReach("restart-failed")
		vAssert("failed-restart-writes-nothing", len(ops.configWrites) == 0 && len(ops.security) == 0)
		return
	}
	cur, _ := vWhich(c.latestMsg, a, b)
	vAssert("restart-adopts-stored-head", cur.size == int64(s0))
	steps := 1 + vChoice("steps", vParam("maxsteps", 1))
	for i := 0; i < steps; i++ {
		var msg []byte
		switch vChoice("present", 3) {
		case 0:
			msg = a.heads[int64(1+vChoice("presentA", na))]
		case 1:
			msg = b.heads[int64(1+vChoice("presentB", nb))]
		case 2:
			// unsigned: a signed head with one text byte changed
			src := a.heads[int64(na)]
			msg = append([]byte{}, src...)
			// one byte of the title, of the size line or of the hash line
			pos := []int{3, 21, 30}[vChoice("flip", 3)]
			nb := vByte("flipbyte")
			vAssume(nb < 0x80)
			vAssume(nb != msg[pos])
			msg[pos] = nb
		}
		beforeMsg := c.latestMsg
		err := c.mergeLatest(msg)
		cur = vCheckStep(c, ops, a, b, int64(shared), cur, beforeMsg, msg, err)
	}
	vCheckConfigWrites(ops, a, b, int64(shared))
	// the stored head agrees with the client's or is an older head on the same log
	stored, ok := vWhich(ops.config, a, b)
	vAssert("stored-head-is-signed", ok)
	vAssert("stored-head-on-client-timeline", vPrefixOf(stored, cur, int64(shared)) || vPrefixOf(cur, stored, int64(shared)))
}

// VerifC13SharedConfig: another client advances (or forks) the shared
// configuration file between this client's read and its compare-and-swap.
func VerifC13SharedConfig() {
	key := &vKey{name: "sum.test", hash: 0x01020304}
	na := vParam("size", 4)
	shared := vChoice("shared", na)
	a := vBuildLog("a", na, na, key)
	b := vBuildLog("b", na, shared, key)
	height := 1 + vChoice("height", vParam("maxh", 2))
	ops := &vOps{honest: a}
	s0 := vChoice("stored", na)
	if s0 > 0 {
		ops.config = a.heads[int64(s0)]
	}
	c, err := vNewClient(ops, key, height)
	vAssert("start-ok", err == nil)
	if err != nil {
		return
	}
	// interference: before each of the first k compare-and-swaps another
	// client stores some other signed head (of log a, or of the fork b)
	k := vChoice("interferences", vParam("maxinterf", 2)+1)
	ops.beforeWrite = func(o *vOps) {
		if k == 0 {
			return
		}
		k--
		if vChoice("otherlog", 2) == 0 {
			o.config = a.heads[int64(1+vChoice("otherA", na))]
		} else {
			o.config = b.heads[int64(1+vChoice("otherB", na))]
		}
	}
	target := int64(s0 + 1 + vChoice("target", na-s0))
	before, _ := vWhich(c.latestMsg, a, b)
	beforeMsg := c.latestMsg
	err = c.mergeLatest(a.heads[target])
	after, ok := vWhich(c.latestMsg, a, b)
	vAssert("latest-is-a-signed-head", ok)
	vAssert("latest-only-moves-forward-along-one-log", vPrefixOf(before, after, int64(shared)))
	_ = beforeMsg
	vCheckConfigWrites(ops, a, b, int64(shared))
	stored, ok := vWhich(ops.config, a, b)
	vAssert("stored-head-is-signed", ok)
	if err == nil {
		vReach("merge-ok")
		// the stored head never ends behind what was there: it is ours or a consistent later/earlier one
		vAssert("stored-head-consistent-with-client", vPrefixOf(stored, after, int64(shared)) || vPrefixOf(after, stored, int64(shared)))
	} else {
		vReach("merge-failed")
		// a failure can only come from a forked head found in the configuration
		vAssert("failure-only-on-fork", stored.log == "b" && stored.size > int64(shared))
		if err == ErrSecurity {
			vAssert("security-callback-called", len(ops.security) >= 1)
		}
	}
}

func VerifC13Twin() {
	key := &vKey{name: "sum.test", hash: 0x01020304}
	a := vBuildLog("a", 3, 3, key)
	ops := &vOps{freeTiles: true}
	ops.config = a.heads[1]
	c, err := vNewClient(ops, key, 2)
	vAssume(err == nil)
	err = c.mergeLatest(a.heads[3])
	vAssume(err == nil)
	vAssert("twin", false)
}
