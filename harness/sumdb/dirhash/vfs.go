//go:build verif

package dirhash

// Native side of the virtual-file-system API (the symbolic engine intercepts
// these functions by name). Natively they use a real temporary directory and
// real zip archives, so a solver model replays against the real os and
// archive/zip packages.

import (
	"archive/zip"
	"bytes"
	"os"
	"path/filepath"
	"sort"
	"strings"
)

var vFSRoot string

func vFSTempDir(name string) string {
	if vFSRoot == "" {
		d, err := os.MkdirTemp("", "vfs")
		if err != nil {
			panic(err)
		}
		vFSRoot = d
	}
	return filepath.Join(vFSRoot, name)
}

func vFSCleanup() {
	if vFSRoot != "" {
		os.RemoveAll(vFSRoot)
		vFSRoot = ""
	}
}

func vFSPutZip(path string, names []string, sizes []int64, datas [][]byte, dirMode []bool) {
	os.MkdirAll(filepath.Dir(path), 0777)
	var buf bytes.Buffer
	zw := zip.NewWriter(&buf)
	for i, name := range names {
		fh := &zip.FileHeader{Name: name, Method: zip.Store}
		fh.UncompressedSize64 = uint64(sizes[i])
		fh.CompressedSize64 = uint64(len(datas[i]))
		if dirMode[i] {
			fh.SetMode(os.ModeDir | 0755)
		}
		w, err := zw.CreateRaw(fh)
		if err != nil {
			panic(err)
		}
		w.Write(datas[i])
	}
	zw.Close()
	if err := os.WriteFile(path, buf.Bytes(), 0666); err != nil {
		panic(err)
	}
}

func vFSPutFile(path string, data []byte) {
	os.MkdirAll(filepath.Dir(path), 0777)
	if err := os.WriteFile(path, data, 0666); err != nil {
		panic(err)
	}
}

func vFSFiles(dir string) (rel []string, data [][]byte) {
	filepath.Walk(dir, func(p string, info os.FileInfo, err error) error {
		if err != nil || info.IsDir() {
			return nil
		}
		r, _ := filepath.Rel(dir, p)
		rel = append(rel, filepath.ToSlash(r))
		return nil
	})
	sort.Strings(rel)
	for _, r := range rel {
		d, _ := os.ReadFile(filepath.Join(dir, r))
		data = append(data, d)
	}
	return
}

// vFSAllInside reports whether everything created under the scratch root lies in dir.
func vFSAllInside(dir string) bool {
	ok := true
	filepath.Walk(vFSRoot, func(p string, info os.FileInfo, err error) error {
		if err != nil || p == vFSRoot {
			return nil
		}
		if p == dir || strings.HasPrefix(p, dir+string(filepath.Separator)) || strings.HasPrefix(dir, p+string(filepath.Separator)) {
			return nil
		}
		if strings.HasSuffix(p, ".zip") {
			return nil // the archives put there by the harness
		}
		ok = false
		return nil
	})
	return ok
}

// vFSChdir makes dir the current directory (natively); the symbolic engine
// treats relative paths as living in ".".
func vFSChdir(dir string) {
	os.MkdirAll(dir, 0777)
	if err := os.Chdir(dir); err != nil {
		panic(err)
	}
}
