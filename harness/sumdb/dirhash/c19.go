//go:build verif

package dirhash

import (
	"strings"
	"crypto/sha256"
	"encoding/base64"
	"encoding/hex"
	"errors"
	"io"
)

func init() {
	vRegister("C19Formula", VerifC19Formula)
	vRegister("C19Order", VerifC19Order)
	vRegister("C19Injective", VerifC19Injective)
	vRegister("C19Errors", VerifC19Errors)
	vRegister("C19Twin", VerifC19Twin)
}

// vRC is the file-content double handed out by the open function.
type vRC struct {
	data    []byte
	off     int
	failAt  int // Read fails once off reaches failAt (-1: never)
	closed  *int
	chunked bool
}

var errVRead = errors.New("read failed")

func (r *vRC) Read(p []byte) (int, error) {
	if r.failAt >= 0 && r.off >= r.failAt {
		return 0, errVRead
	}
	if r.off >= len(r.data) {
		return 0, io.EOF
	}
	n := len(r.data) - r.off
	if r.chunked && n > 1 {
		n = 1
	}
	if r.failAt >= 0 && r.off+n > r.failAt {
		n = r.failAt - r.off
	}
	if n > len(p) {
		n = len(p)
	}
	copy(p, r.data[r.off:r.off+n])
	r.off += n
	return n, nil
}

// WriteTo lets io.Copy avoid its 32 kB scratch buffer (as *os.File and
// bytes.Reader do); it delivers the same bytes as Read would.
func (r *vRC) WriteTo(w io.Writer) (int64, error) {
	var total int64
	var buf [4]byte
	for {
		n, err := r.Read(buf[:])
		if n > 0 {
			m, werr := w.Write(buf[:n])
			total += int64(m)
			if werr != nil {
				return total, werr
			}
		}
		if err == io.EOF {
			return total, nil
		}
		if err != nil {
			return total, err
		}
	}
}

func (r *vRC) Close() error {
	if r.closed != nil {
		*r.closed++
	}
	return nil
}

type vFile struct {
	name    string
	content []byte
}

// vFiles draws 1..max files with free names and contents.
func vFiles(tag string, max int) []vFile {
	n := 1 + vChoice(tag+"nfiles", max)
	var fs []vFile
	for i := 0; i < n; i++ {
		name := vString(tag+"name", vChoice(tag+"namelen", vParam("maxname", 2)+1))
		content := vBytes(tag+"content", vChoice(tag+"contentlen", vParam("maxcontent", 2)+1))
		fs = append(fs, vFile{name, content})
	}
	return fs
}

func vOpener(fs []vFile, chunked bool, closed *int) func(string) (io.ReadCloser, error) {
	return func(name string) (io.ReadCloser, error) {
		// the content is a function of the name: first file listed under that name
		for _, f := range fs {
			if f.name == name {
				return &vRC{data: f.content, failAt: -1, closed: closed, chunked: chunked}, nil
			}
		}
		return nil, errors.New("no such file")
	}
}

func vNames(fs []vFile) []string {
	var out []string
	for _, f := range fs {
		out = append(out, f.name)
	}
	return out
}

func vHasNewline(s string) bool {
	r := false
	for i := 0; i < len(s); i++ {
		r = vOr(r, s[i] == '\n')
	}
	return r
}

// vSummary builds the documented summary independently: names in sort.Strings
// order (bytewise), each line hex(SHA-256(content)) + two spaces + name + "\n".
func vSummary(fs []vFile) []byte {
	sorted := append([]vFile(nil), fs...)
	for i := 1; i < len(sorted); i++ {
		for j := i; j > 0 && sorted[j].name < sorted[j-1].name; j-- {
			sorted[j], sorted[j-1] = sorted[j-1], sorted[j]
		}
	}
	var sum []byte
	for _, f := range sorted {
		d := sha256.Sum256(f.content)
		sum = append(sum, hex.EncodeToString(d[:])...)
		sum = append(sum, ' ', ' ')
		sum = append(sum, f.name...)
		sum = append(sum, '\n')
	}
	return sum
}

func vDistinctNames(fs []vFile) bool {
	ok := true
	for i := range fs {
		for j := 0; j < i; j++ {
			ok = vAnd(ok, fs[i].name != fs[j].name)
		}
	}
	return ok
}

// VerifC19Formula: the h1 hash is the documented formula over names and bytes.
func VerifC19Formula() {
	fs := vFiles("", vParam("maxfiles", 2))
	vAssume(vDistinctNames(fs))
	closed := 0
	got, err := Hash1(vNames(fs), vOpener(fs, vChoice("chunked", 2) == 1, &closed))
	nl := false
	for _, f := range fs {
		nl = vOr(nl, vHasNewline(f.name))
	}
	if nl {
		vReach("newline-name")
		vAssert("newline-refused", err != nil && got == "")
		return
	}
	vReach("hashed")
	vAssert("hash-ok", err == nil)
	d := sha256.Sum256(vSummary(fs))
	want := "h1:" + base64.StdEncoding.EncodeToString(d[:])
	vAssert("h1==formula", got == want)
	vAssert("every-file-closed", closed == len(fs))
}

// VerifC19Order: the hash does not depend on the order the files are listed in.
func VerifC19Order() {
	fs := vFiles("", vParam("maxfiles", 3))
	vAssume(vDistinctNames(fs))
	for _, f := range fs {
		vAssume(!vHasNewline(f.name))
	}
	open := vOpener(fs, false, nil)
	names := vNames(fs)
	h0, err0 := Hash1(names, open)
	// an arbitrary permutation: rotate then optionally swap the first two
	perm := append([]string(nil), names...)
	rot := vChoice("rotate", len(perm))
	perm = append(perm[rot:], perm[:rot]...)
	if len(perm) > 1 && vChoice("swap", 2) == 1 {
		perm[0], perm[1] = perm[1], perm[0]
	}
	h1, err1 := Hash1(perm, open)
	vReach("two-orders")
	vAssert("both-ok", err0 == nil && err1 == nil)
	vAssert("order-independent", h0 == h1)
	// the caller's slice is not reordered
	for i := range fs {
		vAssert("input-list-untouched", names[i] == fs[i].name)
	}
}

// VerifC19Injective: two different sets of (name, content) pairs give
// different hashes (modulo SHA-256 collisions).
func VerifC19Injective() {
	a := vFiles("a.", vParam("maxfiles", 2))
	b := vFiles("b.", vParam("maxfiles", 2))
	for _, fs := range [][]vFile{a, b} {
		for i, f := range fs {
			vAssume(!vHasNewline(f.name))
			if i > 0 {
				vAssume(fs[i-1].name < f.name) // sets, listed in canonical order
			}
		}
	}
	same := len(a) == len(b)
	if same {
		for i := range a {
			same = vAnd(same, vAnd(a[i].name == b[i].name, string(a[i].content) == string(b[i].content)))
		}
	}
	ha, erra := Hash1(vNames(a), vOpener(a, false, nil))
	hb, errb := Hash1(vNames(b), vOpener(b, false, nil))
	vReach("two-sets")
	vAssert("both-ok", erra == nil && errb == nil)
	vAssert("different-sets-different-hashes", vOr(same, ha != hb))
	vAssert("same-sets-same-hash", vImplies(same, ha == hb))
}

// VerifC19Errors: an open or read failure is reported, never hashed over.
func VerifC19Errors() {
	fs := vFiles("", 2)
	vAssume(vDistinctNames(fs))
	for _, f := range fs {
		vAssume(!vHasNewline(f.name))
	}
	which := vChoice("which", len(fs))
	kind := vChoice("kind", 2)
	failAt := vChoice("failat", len(fs[which].content)+1)
	closed := 0
	open := func(name string) (io.ReadCloser, error) {
		for i, f := range fs {
			if f.name == name {
				if i == which && kind == 0 {
					return nil, errors.New("open failed")
				}
				r := &vRC{data: f.content, failAt: -1, closed: &closed}
				if i == which {
					r.failAt = failAt
				}
				return r, nil
			}
		}
		return nil, errors.New("no such file")
	}
	got, err := Hash1(vNames(fs), open)
	vReach("faulty-file")
	vAssert("fault-reported", err != nil && got == "")
}

func VerifC19Twin() {
	fs := vFiles("", 2)
	vAssume(len(fs) == 2 && fs[0].name < fs[1].name)
	_, err := Hash1(vNames(fs), vOpener(fs, false, nil))
	vAssume(err == nil)
	vAssert("twin", false)
}

func init() {
	vRegister("C19Dir", VerifC19Dir)
}

var vTreeDirs = []string{"", "d/", ".x/", "d/e/"}

// VerifC19Dir: hashing a directory equals hashing the list of its files under
// the same prefix (the documented formula, checked for Hash1 by C19Formula),
// for absolute directories and for "." (relative walk), dot-files included;
// hashing a zip with the same entries gives the same hash.
func VerifC19Dir() {
	defer vFSCleanup()
	prefix := "m.co/x@v1.0.0"
	n := 1 + vChoice("nfiles", vParam("maxfiles", 2))
	type tf struct {
		rel  string
		data []byte
	}
	var files []tf
	for i := 0; i < n; i++ {
		rel := vTreeDirs[vChoice("dir", len(vTreeDirs))]
		if vChoice("dotfile", 2) == 1 {
			rel += "."
		}
		rel += vSym("name", 1+vChoice("namelen", 2), `[a-z]`)
		for _, o := range files {
			// a real tree has no duplicate paths and no file that is also a directory
			vAssume(o.rel != rel)
			vAssume(!strings.HasPrefix(o.rel, rel+"/") && !strings.HasPrefix(rel, o.rel+"/"))
		}
		files = append(files, tf{rel, vBytes("content", vChoice("contentlen", 3))})
	}
	root := vFSTempDir("tree")
	walkRoot := root
	if vChoice("dot", 2) == 1 {
		// the directory is named "." (current directory)
		vFSChdir(root)
		walkRoot = "."
		for _, f := range files {
			vFSPutFile(f.rel, f.data)
		}
	} else {
		for _, f := range files {
			vFSPutFile(root+"/"+f.rel, f.data)
		}
	}
	var names []string
	for _, f := range files {
		names = append(names, prefix+"/"+f.rel)
	}
	open := func(name string) (io.ReadCloser, error) {
		for _, f := range files {
			if prefix+"/"+f.rel == name {
				return &vRC{data: f.data, failAt: -1}, nil
			}
		}
		return nil, errors.New("no such file")
	}
	want, err := Hash1(names, open)
	vAssert("list-hash-ok", err == nil)
	listed, err := DirFiles(walkRoot, prefix)
	vReach("walked")
	vAssert("dirfiles-ok", err == nil)
	vAssert("dirfiles==files-under-prefix", len(listed) == len(names) && vPermEqD(len(names), func(i, j int) bool { return names[i] == listed[j] }))
	got, err := HashDir(walkRoot, prefix, Hash1)
	vAssert("hashdir-ok", err == nil)
	vAssert("hashdir==hash-of-list", got == want)
	// the zip with the same entries hashes the same
	zipPath := vFSTempDir("m.zip")
	var sizes []int64
	var datas [][]byte
	var dirs []bool
	for _, f := range files {
		sizes = append(sizes, int64(len(f.data)))
		datas = append(datas, f.data)
		dirs = append(dirs, false)
	}
	vFSPutZip(zipPath, names, sizes, datas, dirs)
	zh, err := HashZip(zipPath, Hash1)
	vAssert("hashzip-ok", err == nil)
	vAssert("hashzip==hashdir", zh == got)
}

func vPermEqD(n int, eq func(i, j int) bool) bool {
	used := make([]bool, n)
	var rec func(i int) bool
	rec = func(i int) bool {
		if i == n {
			return true
		}
		res := false
		for j := 0; j < n; j++ {
			if used[j] {
				continue
			}
			used[j] = true
			res = vOr(res, vAnd(eq(i, j), rec(i+1)))
			used[j] = false
		}
		return res
	}
	return rec(0)
}
