//go:build verif

package note

import (
	"encoding/base64"
	"unicode/utf8"
)

func init() {
	vRegister("C07RoundTrip", VerifC07RoundTrip)
	vRegister("C07Monitor", VerifC07Monitor)
	vRegister("C07Tamper", VerifC07Tamper)
	vRegister("C07Mutate", VerifC07Mutate)
	vRegister("C07Resign", VerifC07Resign)
	vRegister("C07Twin", VerifC07Twin)
}

// ---- doubles ----

// vKey is a key pair double. Sign returns arbitrary (free) signature bytes and
// records them; Verify accepts exactly the recorded (message, signature) pairs
// — the contract of an unforgeable deterministic signature scheme. In
// "adversarial" mode Verify returns an arbitrary boolean per call instead.
type vKey struct {
	name   string
	hash   uint32
	free   bool // Verify answers are free booleans
	siglen int
	signed []vSigned
	calls  *[]vCall
}

type vSigned struct{ msg, sig string }

type vCall struct {
	key *vKey
	msg string
	sig string
	ok  bool
}

func (k *vKey) Name() string    { return k.name }
func (k *vKey) KeyHash() uint32 { return k.hash }

func (k *vKey) Sign(msg []byte) ([]byte, error) {
	sig := vBytes("sig", k.siglen)
	k.signed = append(k.signed, vSigned{string(msg), string(sig)})
	return sig, nil
}

func (k *vKey) Verify(msg, sig []byte) bool {
	var ok bool
	if k.free {
		ok = vBool("verify")
	} else {
		for _, s := range k.signed {
			ok = vOr(ok, vAnd(s.msg == string(msg), s.sig == string(sig)))
		}
	}
	if k.calls != nil {
		*k.calls = append(*k.calls, vCall{k, string(msg), string(sig), ok})
	}
	return ok
}

// vValidText: valid note text as documented: valid UTF-8 without ASCII
// control characters other than newline.
func vValidText(b []byte) bool {
	if !utf8.Valid(b) {
		return false
	}
	for _, c := range b {
		if c < 0x20 && c != '\n' {
			return false
		}
	}
	return true
}

func vText(maxlen int) string {
	n := 1 + vChoice("textlen", maxlen)
	b := vBytes("text", n)
	vAssume(b[n-1] == '\n')
	vAssume(vValidText(b))
	return string(b)
}

func vSigEqual(a, b Signature) bool {
	return vAnd(a.Name == b.Name, vAnd(a.Hash == b.Hash, a.Base64 == b.Base64))
}

// vEmitted returns the Signature that Sign must have emitted for key k over text.
func vEmitted(k *vKey, i int) Signature {
	raw := []byte{byte(k.hash >> 24), byte(k.hash >> 16), byte(k.hash >> 8), byte(k.hash)}
	raw = append(raw, k.signed[i].sig...)
	return Signature{Name: k.name, Hash: k.hash, Base64: base64.StdEncoding.EncodeToString(raw)}
}

func vKeys(calls *[]vCall, siglen int) []*vKey {
	return []*vKey{
		{name: "a", hash: 0x01020304, siglen: siglen, calls: calls},
		{name: "b.c", hash: 0xfffefdfc, siglen: siglen, calls: calls},
		{name: "a", hash: 0x01020305, siglen: siglen, calls: calls}, // same name, other key
		{name: "é", hash: 0, siglen: siglen, calls: calls},
	}
}

// VerifC07RoundTrip: for valid note text, signing with any set of signers and
// opening with any set of known verifiers returns the same text with the
// signatures partitioned into verified (known) and unverified (unknown).
func VerifC07RoundTrip() {
	text := vText(vParam("maxlen", 3))
	var calls []vCall
	keys := vKeys(&calls, 1+vChoice("siglen", vParam("maxsig", 2)))
	nk := vParam("keys", 3)
	signMask := 1 + vChoice("signers", 1<<uint(nk)-1) // non-empty subset
	knownMask := vChoice("known", 1<<uint(nk))
	reverse := vChoice("reverse", 2) == 1
	var signers []Signer
	var order []*vKey
	for i := 0; i < nk; i++ {
		j := i
		if reverse {
			j = nk - 1 - i
		}
		if signMask>>uint(j)&1 == 1 {
			signers = append(signers, keys[j])
			order = append(order, keys[j])
		}
	}
	var known []Verifier
	isKnown := map[*vKey]bool{}
	for i := 0; i < nk; i++ {
		if knownMask>>uint(i)&1 == 1 {
			known = append(known, keys[i])
			isKnown[keys[i]] = true
		}
	}
	msg, err := Sign(&Note{Text: text}, signers...)
	vAssert("sign-ok", err == nil)
	n, err := Open(msg, VerifierList(known...))
	var wantSigs, wantUnv []Signature
	for _, k := range order {
		if isKnown[k] {
			wantSigs = append(wantSigs, vEmitted(k, 0))
		} else {
			wantUnv = append(wantUnv, vEmitted(k, 0))
		}
	}
	if len(wantSigs) == 0 {
		vReach("no-known-signer")
		une, ok := err.(*UnverifiedNoteError)
		vAssert("unverified-note-error", ok && n == nil)
		if !ok {
			return
		}
		n = une.Note
	} else {
		vReach("known-signer")
		vAssert("open-ok", err == nil && n != nil)
		if err != nil {
			return
		}
	}
	vAssert("same-text", n.Text == text)
	vAssert("verified-count", len(n.Sigs) == len(wantSigs))
	vAssert("unverified-count", len(n.UnverifiedSigs) == len(wantUnv))
	for i := range wantSigs {
		if i < len(n.Sigs) {
			vAssert("verified-sig", vSigEqual(n.Sigs[i], wantSigs[i]))
		}
	}
	for i := range wantUnv {
		if i < len(n.UnverifiedSigs) {
			vAssert("unverified-sig", vSigEqual(n.UnverifiedSigs[i], wantUnv[i]))
		}
	}
	// every verified signature was checked by its own key over the returned text
	for _, s := range n.Sigs {
		found := false
		for _, c := range calls {
			if c.key.name == s.Name && c.key.hash == s.Hash {
				found = vOr(found, vAnd(c.ok, c.msg == n.Text))
			}
		}
		vAssert("verified-over-text", found)
	}
}

// VerifC07Monitor: a message with arbitrary text, signer names and signature
// bytes, opened with verifiers whose answers are arbitrary: every signature
// listed as verified was checked by that key's verifier over exactly the
// returned text and its own signature bytes, and a known key that rejects
// makes Open fail with InvalidSignatureError.
func VerifC07Monitor() {
	tl := vChoice("textlen", vParam("maxlen", 2)+1)
	text := append(vBytes("text", tl), '\n')
	msg := append([]byte{}, text...)
	msg = append(msg, '\n')
	nsig := 1 + vChoice("nsig", vParam("maxsigs", 2))
	type line struct{ name, b64 string }
	var lines []line
	for i := 0; i < nsig; i++ {
		name := vString("name", 1+vChoice("namelen", vParam("maxname", 1)))
		// signature body: 8 base64 characters; either all from the alphabet, or the
		// last two from a wider set that includes padding, newline, space and dash
		b64 := vString("b64", 8)
		if i > 0 || vChoice("b64kind", 2) == 0 {
			vAssume(vMatch(`^[A-Za-z0-9+/]*$`, b64))
		} else {
			vAssume(vMatch(`^[A-Za-z0-9+/]{6}[A-Za-z0-9+/=\n -]{2}$`, b64))
		}
		lines = append(lines, line{name, b64})
		msg = append(msg, "— "...)
		msg = append(msg, name...)
		msg = append(msg, ' ')
		msg = append(msg, b64...)
		msg = append(msg, '\n')
	}
	var calls []vCall
	k1 := &vKey{name: "a", hash: 0x61616161, free: true, calls: &calls}
	k2 := &vKey{name: "b", hash: 0x61616162, free: true, calls: &calls}
	n, err := Open(msg, VerifierList(k1, k2))
	rejected := false
	for _, c := range calls {
		rejected = vOr(rejected, !c.ok)
	}
	if rejected {
		vReach("verifier-rejected")
		_, isInv := err.(*InvalidSignatureError)
		vAssert("reject=>InvalidSignatureError", isInv && n == nil)
		return
	}
	if err != nil {
		vReach("open-failed")
		if une, ok := err.(*UnverifiedNoteError); ok {
			vReach("unverified-note")
			vAssert("unverified-note-no-sigs", len(une.Note.Sigs) == 0)
			vAssert("unverified-note-no-accept", len(calls) == 0)
		}
		return
	}
	vReach("open-ok")
	vAssert("at-least-one-verified", len(n.Sigs) >= 1)
	// the returned text is the part of the message before the last blank line
	vAssert("text-is-message-prefix", len(n.Text) < len(msg) && n.Text == string(msg[:len(n.Text)]) && msg[len(n.Text)] == '\n' && n.Text[len(n.Text)-1] == '\n')
	// when no generated field contains a newline the layout is the generated one
	clean := true
	for _, l := range lines {
		for i := 0; i < len(l.name); i++ {
			clean = vAnd(clean, l.name[i] != '\n')
		}
		for i := 0; i < len(l.b64); i++ {
			clean = vAnd(clean, l.b64[i] != '\n')
		}
	}
	vAssert("text-is-generated-text", vImplies(clean, n.Text == string(text)))
	for _, s := range n.Sigs {
		raw, derr := base64.StdEncoding.DecodeString(s.Base64)
		vAssert("sig-base64-decodes", derr == nil && len(raw) >= 5)
		if derr != nil || len(raw) < 5 {
			continue
		}
		found := false
		for _, c := range calls {
			if c.key.name == s.Name && c.key.hash == s.Hash {
				found = vOr(found, vAnd(c.ok, vAnd(c.msg == n.Text, c.sig == string(raw[4:]))))
			}
		}
		vAssert("verified-sig-was-checked", found)
		vAssert("verified-sig-hash-matches-bytes", uint32(raw[0])<<24|uint32(raw[1])<<16|uint32(raw[2])<<8|uint32(raw[3]) == s.Hash)
		vAssert("verified-sig-is-known-key", vOr(vAnd(s.Name == "a", s.Hash == k1.hash), vAnd(s.Name == "b", s.Hash == k2.hash)))
		inMsg := false
		for _, l := range lines {
			inMsg = vOr(inMsg, vAnd(l.name == s.Name, l.b64 == s.Base64))
		}
		vAssert("verified-sig-is-a-message-line", vImplies(clean, inMsg))
	}
	for _, s := range n.UnverifiedSigs {
		vAssert("unverified-is-unknown-key", !vOr(vAnd(s.Name == "a", s.Hash == k1.hash), vAnd(s.Name == "b", s.Hash == k2.hash)))
	}
}

// VerifC07Tamper: replacing the text of a signed message by any other text is rejected.
func VerifC07Tamper() {
	text := vText(vParam("maxlen", 3))
	keys := vKeys(nil, 2)
	msg, err := Sign(&Note{Text: text}, keys[0])
	vAssert("sign-ok", err == nil)
	tl := vChoice("newlen", vParam("maxlen", 3)+2)
	text2 := vString("newtext", tl)
	vAssume(text2 != text)
	msg2 := append([]byte(text2), msg[len(text):]...)
	n, err := Open(msg2, VerifierList(keys[0]))
	if err != nil {
		vReach("tampered-rejected")
	}
	vAssert("tampered-text-rejected", err != nil && n == nil)
	// sanity: the untampered message opens
	n, err = Open(msg, VerifierList(keys[0]))
	vAssert("original-opens", err == nil && n != nil && n.Text == text)
}

// VerifC07Mutate: any single-byte change of a signed message either fails to
// open or still yields the signed text.
func VerifC07Mutate() {
	text := vText(vParam("maxlen", 2))
	keys := vKeys(nil, 1)
	msg, err := Sign(&Note{Text: text}, keys[0])
	vAssert("sign-ok", err == nil)
	pos := vChoice("pos", len(msg))
	b := vByte("newbyte")
	vAssume(b != msg[pos])
	msg2 := append([]byte{}, msg...)
	msg2[pos] = b
	n, err := Open(msg2, VerifierList(keys[0]))
	if err != nil {
		vReach("mutation-rejected")
		return
	}
	vReach("mutation-accepted")
	vAssert("accepted-mutation-keeps-text", n.Text == text)
	vAssert("accepted-mutation-has-verified-sig", len(n.Sigs) == 1 && n.Sigs[0].Name == keys[0].name && n.Sigs[0].Hash == keys[0].hash)
}

// VerifC07Resign: signing an opened note again keeps existing signatures,
// elides those replaced by a new signer, and the result opens to the same text.
func VerifC07Resign() {
	text := vText(vParam("maxlen", 2))
	keys := vKeys(nil, 1)
	msg, err := Sign(&Note{Text: text}, keys[0], keys[1])
	vAssert("sign-ok", err == nil)
	n, err := Open(msg, VerifierList(keys[0]))
	vAssert("open-ok", err == nil && n != nil)
	if err != nil {
		return
	}
	second := keys[2]
	if vChoice("replace", 2) == 1 {
		second = keys[0] // same key signs again: old signature elided
	}
	msg2, err := Sign(n, second)
	vAssert("resign-ok", err == nil)
	n2, err := Open(msg2, VerifierList(keys[0], keys[1], keys[2]))
	vReach("resigned")
	vAssert("reopen-ok", err == nil && n2 != nil)
	if err != nil {
		return
	}
	vAssert("reopen-text", n2.Text == text)
	if second == keys[0] {
		vAssert("replaced-count", len(n2.Sigs) == 2 && len(n2.UnverifiedSigs) == 0)
		vAssert("replaced-order", n2.Sigs[0].Name == "b.c" && vSigEqual(n2.Sigs[1], vEmitted(keys[0], 1)))
	} else {
		vAssert("added-count", len(n2.Sigs) == 3 && len(n2.UnverifiedSigs) == 0)
		vAssert("added-order", vSigEqual(n2.Sigs[0], vEmitted(keys[0], 0)) && vSigEqual(n2.Sigs[1], vEmitted(keys[1], 0)) && vSigEqual(n2.Sigs[2], vEmitted(keys[2], 0)))
	}
}

func VerifC07Twin() {
	text := vText(2)
	keys := vKeys(nil, 1)
	msg, err := Sign(&Note{Text: text}, keys[0])
	vAssume(err == nil)
	_, err = Open(msg, VerifierList(keys[0]))
	vAssume(err == nil)
	vAssert("twin", false)
}
