//go:build verif

package sumdb

import (
	"bytes"
	"strings"

	"golang.org/x/mod/module"
	"golang.org/x/mod/sumdb/tlog"
)

func init() {
	vRegister("C01Adversary", VerifC01Adversary)
	vRegister("C01Honest", VerifC01Honest)
	vRegister("C01Skip", VerifC01Skip)
	vRegister("C01Twin", VerifC01Twin)
}

// records of the honest log used by the C01 harnesses: record i is for module
// vModPath(i) at version v1.0.i (one record has an upper-case letter in its path).
func vModPath(i int) string {
	if i == 1 {
		return "m.co/Up"
	}
	return "m.co/a"
}

func vC01Text(i int) []byte {
	v := "v1.0." + string(rune('0'+i))
	p := vModPath(i)
	return []byte(p + " " + v + " h1:AAAA" + v + "=\n" + p + " " + v + "/go.mod h1:BBBB" + v + "=\n")
}

func vC01Log(n int, key *vKey) *vLogT {
	l := &vLogT{name: "a", heads: map[int64][]byte{}, trees: map[int64]tlog.Tree{}}
	for i := 0; i < n; i++ {
		text := vC01Text(i)
		l.texts = append(l.texts, text)
		hs, err := tlog.StoredHashes(int64(i), text, l.store)
		if err != nil {
			panic(err)
		}
		l.store = append(l.store, hs...)
	}
	return l
}

func vSignHeads(l *vLogT, key *vKey) {
	for i := range l.texts {
		th, err := tlog.TreeHash(int64(i+1), l.store)
		if err != nil {
			panic(err)
		}
		tree := tlog.Tree{N: int64(i + 1), Hash: th}
		l.trees[tree.N] = tree
		l.heads[tree.N] = vSignTree(tree, key)
	}
}

func vLookupPath(i int) string {
	ep, err := module.EscapePath(vModPath(i))
	if err != nil {
		panic(err)
	}
	return "/lookup/" + ep + "@v1.0." + string(rune('0'+i))
}

func vHonestResponse(l *vLogT, i int, head int64) []byte {
	msg, err := tlog.FormatRecord(int64(i), l.texts[i])
	if err != nil {
		panic(err)
	}
	return append(msg, l.heads[head]...)
}

// vCheckCacheWrites: everything written to the cache is authenticated data of
// the honest log: tile files equal the true tiles, lookup files are a true
// record followed by a validly signed head.
func vCheckCacheWrites(ops *vOps, l *vLogT) {
	for _, w := range ops.cacheWrites {
		rest := strings.TrimPrefix(w.file, "sum.test/")
		vAssert("cache-file-under-server-name", rest != w.file)
		if strings.HasPrefix(rest, "tile/") {
			t, err := tlog.ParseTilePath(rest)
			vAssert("cached-tile-name-valid", err == nil)
			if err != nil {
				continue
			}
			truth, ok := l.tile(t)
			vAssert("cached-tile-exists-in-log", ok)
			if ok {
				vAssert("cached-tile-is-true-tile", len(truth) == len(w.new) && string(truth) == string(w.new))
			}
			continue
		}
		vAssert("cache-file-is-lookup", strings.HasPrefix(rest, "lookup/"))
		id, text, treeMsg, err := tlog.ParseRecord(w.new)
		vAssert("cached-lookup-parses", err == nil)
		if err != nil {
			continue
		}
		vAssert("cached-record-id-in-log", id >= 0 && id < int64(len(l.texts)))
		if id >= 0 && id < int64(len(l.texts)) {
			vAssert("cached-record-is-true-record", string(text) == string(l.texts[id]))
		}
		_, signed := vWhich(treeMsg, l, nil)
		vAssert("cached-head-is-signed", signed && len(treeMsg) > 0)
	}
}

func vWantLines(l *vLogT, i int, gomod bool) []string {
	lines := strings.Split(strings.TrimSuffix(string(l.texts[i]), "\n"), "\n")
	if gomod {
		return lines[1:]
	}
	return lines[:1]
}

// VerifC01Adversary: a lookup against a server and a cache that may return
// anything: arbitrary record id, record text with an arbitrary byte changed or
// another record's text, any signed head (stale replay included) or an
// unsigned one, and every byte of every tile free. The lookup fails or
// returns exactly the true lines; nothing unauthenticated reaches the cache or
// the stored head.
func VerifC01Adversary() {
	key := &vKey{name: "sum.test", hash: 0x01020304}
	n := 2 + vChoice("size", vParam("maxsize", 3)-1)
	l := vC01Log(n, key)
	vSignHeads(l, key)
	height := 1 + vChoice("height", vParam("maxh", 2))
	ops := &vOps{honest: l}
	if s0 := vChoice("stored", n+1); s0 > 0 {
		ops.config = l.heads[int64(s0)]
	}
	r := vChoice("record", n)
	gomod := vChoice("gomod", 2) == 1
	// which parts of the environment misbehave: up to maxfaults of
	// {record id, record text, tree head, tiles, lookup cache entry, partial tiles gone and full tiles with arbitrary tails}
	var bad [6]bool
	nf := vChoice("nfaults", vParam("maxfaults", 1)+1)
	last := -1
	for i := 0; i < nf; i++ {
		d := last + 1 + vChoice("fault", 6-last-1)
		bad[d] = true
		last = d
		if last == 5 {
			break
		}
	}
	ops.freeTiles = bad[3]
	ops.dropPartial = bad[5]
	// the adversarial lookup response
	respond := func() []byte {
		id := int64(r)
		if bad[0] {
			switch vChoice("resp.id", 2) {
			case 0:
				id = int64(vChoice("resp.otherid", n+1))
			case 1:
				id = vInt64("resp.symid")
				vAssume(id >= 0 && id < 1000)
			}
		}
		text := append([]byte{}, l.texts[r]...)
		if bad[1] {
			switch vChoice("resp.text", 2) {
			case 0:
				text = append([]byte{}, l.texts[vChoice("resp.othertext", n)]...)
			case 1:
				pos := []int{0, 6, 20, len(text) - 2}[vChoice("resp.flip", 4)]
				nb := vByte("resp.flipbyte")
				vAssume(nb != text[pos] && nb < 0x80)
				text[pos] = nb
			}
		}
		msg, err := tlog.FormatRecord(id, text)
		if err != nil {
			// text no longer a valid record: serve it raw
			msg = append([]byte("0\n"), text...)
			msg = append(msg, '\n')
		}
		head := l.heads[int64(n)]
		if bad[2] {
			head = l.heads[int64(1+vChoice("resp.head", n))]
			if vChoice("resp.unsigned", 2) == 1 {
				head = append([]byte{}, head...)
				pos := []int{3, 21, 30}[vChoice("resp.headflip", 3)]
				nb := vByte("resp.headbyte")
				vAssume(nb != head[pos] && nb < 0x80)
				head[pos] = nb
			}
		}
		return append(msg, head...)
	}
	cacheMode := vChoice("cache", 2)
	if bad[4] {
		cacheMode = 2
	}
	switch cacheMode {
	case 1: // honest warm tile cache
		ops.cache = map[string][]byte{}
		for _, t := range tlog.NewTiles(height, 0, int64(n)) {
			if d, ok := l.tile(t); ok {
				ops.cache["sum.test/"+t.Path()] = d
			}
		}
	case 2: // poisoned lookup cache entry
		ops.cache = map[string][]byte{"sum.test" + vLookupPath(r): respond()}
	}
	ops.lookup = func(path string) ([]byte, error) { return respond(), nil }
	c, err := vNewClient(ops, key, height)
	if err != nil {
		vReach("start-failed")
		vCheckCacheWrites(ops, l)
		return
	}
	vers := "v1.0." + string(rune('0'+r))
	if gomod {
		vers += "/go.mod"
	}
	lines, err := c.Lookup(vModPath(r), vers)
	if err == nil {
		vReach("lookup-accepted")
		want := vWantLines(l, r, gomod)
		// every returned line is the true line of the log for this module and version
		// (a server that substitutes another true record yields no lines, never false ones)
		vAssert("accepted-lines-are-true-lines", len(lines) <= len(want) && (len(lines) == 0 || lines[0] == want[0]))
	} else {
		vReach("lookup-refused")
		vAssert("no-lines-on-error", len(lines) == 0)
	}
	vCheckCacheWrites(ops, l)
	vCheckConfigWrites(ops, l, nil, int64(n))
	_, signed := vWhich(c.latestMsg, l, nil)
	vAssert("latest-is-a-signed-head", signed)
	_, signed = vWhich(ops.config, l, nil)
	vAssert("stored-head-is-signed", signed)
}

// VerifC01Honest: an honest server and honest cache never cause a failure:
// every record is found (upper-case path and /go.mod versions included), the
// cache and stored head end up with true data, and the second lookup of the
// same module and version reads nothing more for that record.
func VerifC01Honest() {
	key := &vKey{name: "sum.test", hash: 0x01020304}
	n := 1 + vChoice("size", vParam("maxsize", 4))
	l := vC01Log(n, key)
	vSignHeads(l, key)
	height := 1 + vChoice("height", vParam("maxh", 3))
	ops := &vOps{honest: l}
	if s0 := vChoice("stored", n+1); s0 > 0 {
		ops.config = l.heads[int64(s0)]
	}
	served := int64(n)
	ops.lookup = func(path string) ([]byte, error) {
		for i := range l.texts {
			if path == vLookupPath(i) {
				return vHonestResponse(l, i, served), nil
			}
		}
		return nil, errVNoFile
	}
	c, err := vNewClient(ops, key, height)
	vAssert("honest-start-ok", err == nil)
	if err != nil {
		return
	}
	r := vChoice("record", n)
	vers := "v1.0." + string(rune('0'+r))
	first := vChoice("gomodfirst", 2) == 1
	v1, v2 := vers, vers+"/go.mod"
	if first {
		v1, v2 = v2, v1
	}
	lines, err := c.Lookup(vModPath(r), v1)
	vReach("honest-lookup")
	vAssert("honest-lookup-ok", err == nil)
	want := vWantLines(l, r, first)
	vAssert("honest-lines", len(lines) == 1 && lines[0] == want[0])
	nRemote, nCache := len(ops.remoteReads), len(ops.cacheReads)
	lines, err = c.Lookup(vModPath(r), v2)
	vAssert("second-lookup-ok", err == nil)
	want = vWantLines(l, r, !first)
	vAssert("second-lines", len(lines) == 1 && lines[0] == want[0])
	vAssert("second-lookup-reads-nothing", len(ops.remoteReads) == nRemote && len(ops.cacheReads) == nCache)
	// a lookup of another record still works, also when the stored head must move
	r2 := vChoice("record2", n)
	lines, err = c.Lookup(vModPath(r2), "v1.0."+string(rune('0'+r2)))
	vAssert("other-lookup-ok", err == nil && len(lines) == 1)
	vCheckCacheWrites(ops, l)
	vCheckConfigWrites(ops, l, nil, int64(n))
	stored, ok := vWhich(ops.config, l, nil)
	vAssert("stored-head-is-largest-seen", ok && stored.size == int64(n))
	// a restarted client on the same cache and configuration needs no network for the same record
	ops2 := &vOps{honest: nil, config: ops.config, cache: ops.cache}
	c2, err := vNewClient(ops2, key, height)
	vAssert("restart-ok", err == nil)
	if err == nil {
		lines, err = c2.Lookup(vModPath(r), vers)
		vAssert("restart-lookup-from-cache-ok", err == nil && len(lines) == 1)
		vAssert("restart-needs-no-network", len(ops2.remoteReads) == 0)
	}
}

// VerifC01Skip: a path matching the GONOSUMDB list triggers no external operation at all.
func VerifC01Skip() {
	ops := &vOps{}
	c := NewClient(ops)
	c.SetGONOSUMDB("m.co/priv*,corp.example")
	tail := vSym("tail", vChoice("len", 3), `[a-z/]`)
	_, err := c.Lookup("m.co/private"+tail, "v1.0.0")
	vReach("skipped")
	vAssert("skip-error", err == ErrGONOSUMDB)
	vAssert("skip-no-operation", ops.configReads == 0 && len(ops.remoteReads) == 0 && len(ops.cacheReads) == 0 && len(ops.cacheWrites) == 0 && len(ops.configWrites) == 0)
	_ = bytes.Equal
}

func VerifC01Twin() {
	key := &vKey{name: "sum.test", hash: 0x01020304}
	l := vC01Log(2, key)
	vSignHeads(l, key)
	ops := &vOps{honest: l}
	ops.lookup = func(path string) ([]byte, error) { return vHonestResponse(l, 0, 2), nil }
	c, err := vNewClient(ops, key, 2)
	vAssume(err == nil)
	_, err = c.Lookup("m.co/a", "v1.0.0")
	vAssume(err == nil)
	vAssert("twin", false)
}
