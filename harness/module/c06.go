//go:build verif

package module

import (
	"path"
	"strings"
	"unicode"
	"unicode/utf8"

	"golang.org/x/mod/semver"
)

func init() {
	vRegister("C06Kinds", VerifC06Kinds)
	vRegister("C06KindsTwin", VerifC06KindsTwin)
	vRegister("C06Elem", VerifC06Elem)
	vRegister("C06Split", VerifC06Split)
	vRegister("C06Check", VerifC06Check)
	vRegister("C06Globs", VerifC06Globs)
	vRegister("C06Canonical", VerifC06Canonical)
}

// ---- reference predicates written from the documentation ----

const (
	vkMod = iota
	vkImp
	vkFile
)

var vReserved = []string{"con", "prn", "aux", "nul",
	"com1", "com2", "com3", "com4", "com5", "com6", "com7", "com8", "com9",
	"lpt1", "lpt2", "lpt3", "lpt4", "lpt5", "lpt6", "lpt7", "lpt8", "lpt9"}

func vCharOK(r rune, k int) bool {
	if r < utf8.RuneSelf {
		alnum := '0' <= r && r <= '9' || 'a' <= r && r <= 'z' || 'A' <= r && r <= 'Z'
		if alnum {
			return true
		}
		switch k {
		case vkMod:
			return r == '-' || r == '.' || r == '_' || r == '~'
		case vkImp:
			return r == '-' || r == '.' || r == '_' || r == '~' || r == '+'
		}
		return strings.ContainsRune("!#$%&()+,-.=@[]^_{}~ ", r)
	}
	if k != vkFile {
		return false
	}
	return unicode.IsLetter(r)
}

func vIsDigits(s string) bool {
	if s == "" {
		return false
	}
	for i := 0; i < len(s); i++ {
		if s[i] < '0' || s[i] > '9' {
			return false
		}
	}
	return true
}

func vRefElem(e string, k int) bool {
	if e == "" {
		return false
	}
	allDots := true
	for i := 0; i < len(e); i++ {
		if e[i] != '.' {
			allDots = false
		}
	}
	if allDots {
		return false
	}
	if k == vkMod && e[0] == '.' {
		return false
	}
	if e[len(e)-1] == '.' {
		return false
	}
	for _, r := range e {
		if !vCharOK(r, k) {
			return false
		}
	}
	short := e
	for i := 0; i < len(e); i++ {
		if e[i] == '.' {
			short = e[:i]
			break
		}
	}
	// reserved device names, in any case. Every character here is already
	// known to be allowed; names are ASCII, so a non-ASCII byte never matches.
	for _, bad := range vReserved {
		if len(short) == len(bad) {
			same := true
			for i := 0; i < len(bad); i++ {
				c := short[i]
				if 'A' <= c && c <= 'Z' {
					c += 'a' - 'A'
				}
				if c != bad[i] {
					same = false
					break
				}
			}
			if same {
				return false
			}
		}
	}
	if k != vkFile {
		t := -1
		for i := 0; i < len(short); i++ {
			if short[i] == '~' {
				t = i
			}
		}
		if t >= 0 && vIsDigits(short[t+1:]) {
			return false
		}
	}
	return true
}

func vRefPath(p string, k int) bool {
	if !utf8.ValidString(p) || p == "" {
		return false
	}
	if p[0] == '-' && k != vkFile {
		return false
	}
	start := 0
	for i := 0; i <= len(p); i++ {
		if i == len(p) || p[i] == '/' {
			// an empty element covers leading, trailing and double slashes
			if !vRefElem(p[start:i], k) {
				return false
			}
			start = i + 1
		}
	}
	return true
}

// vRefSplit: documented split of a module path into prefix and major-version suffix.
func vRefSplit(p string) (prefix, major string, ok bool) {
	if strings.HasPrefix(p, "gopkg.in/") {
		q := strings.TrimSuffix(p, "-unstable")
		i := strings.LastIndex(q, ".v")
		if i < 0 || !vIsDigits(q[i+2:]) {
			return p, "", false
		}
		d := q[i+2:]
		// leading zeros are refused; the pinned implementation applies this
		// to the whole suffix, so ".v0" is accepted but ".v0-unstable" is not
		// (the documentation only says "the gopkg.in server's conventions").
		if d[0] == '0' && p[i:] != ".v0" {
			return p, "", false
		}
		return p[:i], p[i:], true
	}
	i := strings.LastIndexByte(p, '/')
	if i < 0 {
		return p, "", true
	}
	last := p[i+1:]
	if len(last) < 2 || last[0] != 'v' {
		return p, "", true
	}
	hasDot := false
	for j := 1; j < len(last); j++ {
		if last[j] == '.' {
			hasDot = true
		} else if last[j] < '0' || last[j] > '9' {
			return p, "", true // not version-like
		}
	}
	d := last[1:]
	if hasDot || d[0] == '0' || d == "1" {
		return p, "", false
	}
	return p[:i], p[i:], true
}

func vRefModule(p string) bool {
	if !vRefPath(p, vkMod) {
		return false
	}
	first := p
	for i := 0; i < len(p); i++ {
		if p[i] == '/' {
			first = p[:i]
			break
		}
	}
	hasDot := false
	for i := 0; i < len(first); i++ {
		c := first[i]
		if c == '.' {
			hasDot = true
		}
		if !(c == '-' || c == '.' || '0' <= c && c <= '9' || 'a' <= c && c <= 'z') {
			return false
		}
	}
	if !hasDot || first[0] == '-' {
		return false
	}
	_, _, ok := vRefSplit(p)
	return ok
}

func vAlnum(s string) bool {
	ok := true
	for i := 0; i < len(s); i++ {
		c := s[i]
		ok = vAnd(ok, vOr(vOr(vAnd('0' <= c, c <= '9'), vAnd('a' <= c, c <= 'z')), vAnd('A' <= c, c <= 'Z')))
	}
	return ok
}

func vASCII(s string) bool {
	ok := true
	for i := 0; i < len(s); i++ {
		ok = vAnd(ok, s[i] < 0x80)
	}
	return ok
}

// VerifC06Kinds: the three checkers accept exactly the documented paths, and
// module => import => file.
func VerifC06Kinds() {
	n := vChoice("len", vParam("maxlen", 5)+1)
	p := vString("p", n)
	if vParam("ascii", 0) == 1 {
		vAssume(vASCII(p))
	}
	m, i, f := CheckPath(p) == nil, CheckImportPath(p) == nil, CheckFilePath(p) == nil
	if m {
		vReach("module-valid")
	}
	if f && !i {
		vReach("file-only")
	}
	vAssert("module", m == vRefModule(p))
	vAssert("import", i == vRefPath(p, vkImp))
	vAssert("file", f == vRefPath(p, vkFile))
	vAssert("module=>import", !m || i)
	vAssert("import=>file", !i || f)
}

func VerifC06KindsTwin() {
	n := vChoice("len", vParam("maxlen", 5)+1)
	p := vString("p", n)
	vAssume(CheckPath(p) == nil)
	vAssert("twin", false)
}

var vElemPrefixes = []string{"a.b/", "a.b/x/", "a.b/x."}

// VerifC06Elem: one path element (reserved names, dots, tilde short-names,
// character classes) under a fixed valid first element.
func VerifC06Elem() {
	pre := vElemPrefixes[vChoice("prefix", len(vElemPrefixes))]
	var e string
	switch vChoice("shape", 5) {
	case 0:
		e = vString("e", vChoice("len", vParam("maxlen", 5)+1))
	case 1: // name.x.y: the reserved-name rule looks at the part before the FIRST dot
		n3, x, y := vString("name3", 3), vString("x", 1), vString("y", 1)
		vAssume(vAlnum(n3 + x + y))
		e = n3 + "." + x + "." + y
	case 2:
		n4, x, y := vString("name4", 4), vString("x", 1), vString("y", 1)
		vAssume(vAlnum(n4 + x + y))
		e = n4 + "." + x + "." + y
	case 3: // short-name suffix ~digits before the first dot
		a, d, x := vString("a", 1), vString("d", 2), vString("x", 1)
		vAssume(vAlnum(a + d + x))
		e = a + "~" + d + "." + x
	case 4:
		a, d, x := vString("a", 2), vString("d", 1), vString("x", 2)
		vAssume(vAlnum(a + d))
		e = a + "~" + d + x
	}
	if vParam("ascii", 1) == 1 {
		vAssume(vASCII(e))
	}
	p := pre + e
	m, i, f := CheckPath(p) == nil, CheckImportPath(p) == nil, CheckFilePath(p) == nil
	if m {
		vReach("module-valid")
	} else if f {
		vReach("file-valid")
	} else {
		vReach("invalid")
	}
	vAssert("module", m == vRefModule(p))
	vAssert("import", i == vRefPath(p, vkImp))
	vAssert("file", f == vRefPath(p, vkFile))
	vAssert("module=>import", !m || i)
	vAssert("import=>file", !i || f)
}

var vSplitPrefixes = []string{"a.b/", "a.b/c/", "gopkg.in/", "gopkg.in/y", "gopkg.in/y.", "a.b/v", "gopkg.in/y.v", "gopkg.in/y.v2-", "gopkg.in/y.v1-unstabl"}

// VerifC06Split: SplitPathVersion on valid module paths, and agreement with the reference split.
func VerifC06Split() {
	pre := vSplitPrefixes[vChoice("prefix", len(vSplitPrefixes))]
	t := vString("t", vChoice("len", vParam("maxtail", 4)+1))
	vAssume(vASCII(t))
	p := pre + t
	prefix, major, ok := SplitPathVersion(p)
	rp, rm, rok := vRefSplit(p)
	vAssert("concat", prefix+major == p)
	vAssert("ok==ref", ok == rok)
	if ok {
		vAssert("prefix==ref", prefix == rp)
		vAssert("major==ref", major == rm)
	}
	valid := CheckPath(p) == nil
	vAssert("module", valid == vRefModule(p))
	if valid {
		vReach("valid")
		vAssert("valid=>ok", ok)
		if strings.HasPrefix(p, "gopkg.in/") {
			vAssert("gopkg-suffix", vMatch(`^\.v(0|[1-9][0-9]*)(-unstable)?$`, major))
			vAssert("PathMajorPrefix", PathMajorPrefix(major) == strings.TrimSuffix(major, "-unstable")[1:])
		} else {
			vAssert("suffix", vMatch(`^(/v([2-9]|[1-9][0-9]+))?$`, major))
			if major != "" {
				vReach("suffixed")
				vAssert("PathMajorPrefix", PathMajorPrefix(major) == major[1:])
			}
		}
	}
}

var vCheckPaths = []string{"a.co/b", "a.co/b/v2", "a.co/b/v3", "a.co/b/v12", "gopkg.in/y.v1", "gopkg.in/y.v2", "gopkg.in/y.v0",
	"gopkg.in/y.v2-unstable", "gopkg.in/y.v1-unstable", "gopkg.in/y.v0-unstable", "a.co/v2", "a.co", "gopkg.in/y", "a.co/b/v1", "A.co/b"}
var vVersionPrefixes = []string{"", "v", "v0.0.0-", "v1.", "v2.0.0", "v1.0.0+", "v12."}

func vRefCheck(p, v string) bool {
	if !vRefModule(p) || !semver.IsValid(v) {
		return false
	}
	_, major, _ := vRefSplit(p)
	m := semver.Major(v)
	if strings.HasPrefix(p, "gopkg.in/") {
		mm := strings.TrimSuffix(major, "-unstable")
		if mm == ".v1" && strings.HasPrefix(v, "v0.0.0-") {
			return true
		}
		return m == mm[1:]
	}
	if major == "" {
		return m == "v0" || m == "v1" || semver.Build(v) == "+incompatible"
	}
	return m == major[1:]
}

// VerifC06Check: a path/version pair is accepted exactly when path and
// version are valid and the major version matches the suffix.
func VerifC06Check() {
	p := vCheckPaths[vChoice("path", len(vCheckPaths))]
	vp := vVersionPrefixes[vChoice("vprefix", len(vVersionPrefixes))]
	v := vp + vString("v", vChoice("len", vParam("maxtail", 4)+1))
	got := Check(p, v) == nil
	want := vRefCheck(p, v)
	if want {
		vReach("accepted")
	} else {
		vReach("rejected")
	}
	vAssert("Check==reference", got == want)
	_, major, ok := SplitPathVersion(p)
	if ok {
		vAssert("MatchPathMajor", MatchPathMajor(v, major) == (CheckPathMajor(v, major) == nil))
	}
}

func vRefMatch(globs, target string) bool {
	for _, g := range strings.Split(globs, ",") {
		g = strings.TrimSuffix(g, "/")
		if g == "" {
			continue
		}
		n := strings.Count(g, "/") + 1
		elems := strings.Split(target, "/")
		if len(elems) < n {
			continue
		}
		prefix := strings.Join(elems[:n], "/")
		if ok, _ := path.Match(g, prefix); ok {
			return true
		}
	}
	return false
}

// VerifC06Globs: MatchPrefixPatterns equals the documented prefix-glob definition.
func VerifC06Globs() {
	g := vString("globs", vChoice("leng", vParam("maxglob", 3)+1))
	t := vString("target", vChoice("lent", vParam("maxtarget", 3)+1))
	vAssume(vAnd(vASCII(g), vASCII(t)))
	got := MatchPrefixPatterns(g, t)
	want := vRefMatch(g, t)
	if want {
		vReach("match")
	} else {
		vReach("nomatch")
	}
	vAssert("MatchPrefixPatterns==reference", got == want)
}

// VerifC06Canonical: CanonicalVersion keeps exactly +incompatible.
func VerifC06Canonical() {
	pre := []string{"v1.2.3", "v1.2", "v2", "v1.0.0-a"}[vChoice("pre", 4)]
	v := pre + vString("t", vChoice("len", vParam("maxtail", 4)+1))
	cv := CanonicalVersion(v)
	if !semver.IsValid(v) {
		vReach("invalid")
		vAssert("invalid", cv == "")
		return
	}
	vReach("valid")
	want := semver.Canonical(v)
	if semver.Build(v) == "+incompatible" {
		want += "+incompatible"
	}
	vAssert("canonical", cv == want)
	vAssert("only-incompatible-kept", semver.Build(cv) == "" || semver.Build(cv) == "+incompatible")
}
