//go:build verif

package module

import "strings"

func init() {
	vRegister("C11Version", VerifC11Version)
	vRegister("C11UnescapeVersion", VerifC11UnescapeVersion)
	vRegister("C11Path", VerifC11Path)
	vRegister("C11UnescapePath", VerifC11UnescapePath)
	vRegister("C11Collide", VerifC11Collide)
	vRegister("C11Twin", VerifC11Twin)
}

func vNoUpper(s string) bool {
	ok := true
	for i := 0; i < len(s); i++ {
		ok = vAnd(ok, vOr(s[i] < 'A', s[i] > 'Z'))
	}
	return ok
}

func vHasBang(s string) bool {
	has := false
	for i := 0; i < len(s); i++ {
		has = vOr(has, s[i] == '!')
	}
	return has
}

// allowed version: a valid file-path element, ASCII, without '!'
func vRefVersionOK(v string) bool {
	if !vRefElem(v, vkFile) {
		return false
	}
	if !vASCII(v) {
		return false
	}
	return !vHasBang(v)
}

// VerifC11Version: escaping of versions is lossless, lower-case, and rejects every invalid input.
func VerifC11Version() {
	v := vString("v", vChoice("len", vParam("maxlen", 4)+1))
	e, err := EscapeVersion(v)
	want := vRefVersionOK(v)
	vAssert("escape-ok==valid", (err == nil) == want)
	if err != nil {
		vReach("rejected")
		return
	}
	vReach("escaped")
	vAssert("no-upper", vNoUpper(e))
	u, uerr := UnescapeVersion(e)
	vAssert("unescape-ok", uerr == nil)
	vAssert("roundtrip", u == v)
}

// VerifC11UnescapeVersion: unescaping succeeds only on escapes of valid inputs.
func VerifC11UnescapeVersion() {
	e := vString("e", vChoice("len", vParam("maxlen", 4)+1))
	v, err := UnescapeVersion(e)
	if err != nil {
		vReach("rejected")
		return
	}
	vReach("accepted")
	e2, err2 := EscapeVersion(v)
	vAssert("image-of-valid", err2 == nil)
	if err2 == nil {
		vAssert("is-the-escape", e2 == e)
	}
}

var vPathPrefixes = []string{"a.b/", "a.b/c", "gopkg.in/y.v", "a.b/v"}

// VerifC11Path: escaping of module paths.
func VerifC11Path() {
	var p string
	if vChoice("mode", 2) == 0 {
		p = vString("p", vChoice("len", vParam("maxlen", 4)+1))
	} else {
		p = vPathPrefixes[vChoice("prefix", len(vPathPrefixes))] + vString("t", vChoice("len", vParam("maxtail", 4)+1))
	}
	e, err := EscapePath(p)
	vAssert("escape-ok==valid", (err == nil) == vRefModule(p))
	if err != nil {
		vReach("rejected")
		return
	}
	vReach("escaped")
	vAssert("no-upper", vNoUpper(e))
	u, uerr := UnescapePath(e)
	vAssert("unescape-ok", uerr == nil)
	vAssert("roundtrip", u == p)
}

// VerifC11UnescapePath: unescaping succeeds only on escapes of valid module paths.
func VerifC11UnescapePath() {
	var e string
	if vChoice("mode", 2) == 0 {
		e = vString("e", vChoice("len", vParam("maxlen", 4)+1))
	} else {
		e = vPathPrefixes[vChoice("prefix", len(vPathPrefixes))] + vString("t", vChoice("len", vParam("maxtail", 4)+1))
	}
	p, err := UnescapePath(e)
	if err != nil {
		vReach("rejected")
		return
	}
	vReach("accepted")
	vAssert("valid-path", CheckPath(p) == nil)
	e2, err2 := EscapePath(p)
	vAssert("image-of-valid", err2 == nil)
	if err2 == nil {
		vAssert("is-the-escape", e2 == e)
	}
}

// VerifC11Collide: two different valid inputs never escape to strings equal ignoring case.
func VerifC11Collide() {
	max := vParam("maxlen", 3)
	v := vString("v", vChoice("lenv", max+1))
	w := vString("w", vChoice("lenw", max+1))
	ev, err1 := EscapeVersion(v)
	ew, err2 := EscapeVersion(w)
	if err1 != nil || err2 != nil {
		return
	}
	if v == w {
		return
	}
	vReach("distinct-valid")
	vAssert("no-fold-collision", !strings.EqualFold(ev, ew))
	// the same two strings as final path elements
	pv, pw := "a.b/"+v, "a.b/"+w
	epv, e1 := EscapePath(pv)
	epw, e2 := EscapePath(pw)
	if e1 == nil && e2 == nil {
		vAssert("no-fold-collision-path", !strings.EqualFold(epv, epw))
	}
}

func VerifC11Twin() {
	v := vString("v", vChoice("len", 3))
	e, err := EscapeVersion(v)
	vAssume(err == nil)
	vAssume(e != v)
	vAssert("twin", false)
}
