//go:build verif

package module

import (
	"strings"

	"golang.org/x/mod/semver"
)

func init() {
	vRegister("C18Roundtrip", VerifC18Roundtrip)
	vRegister("C18TimeOrder", VerifC18TimeOrder)
	vRegister("C18Twin", VerifC18Twin)
}

const vStampLayout = "20060102150405"

func vDigits(s string) bool {
	ok := true
	for i := 0; i < len(s); i++ {
		ok = vAnd(ok, vAnd(s[i] >= '0', s[i] <= '9'))
	}
	return ok
}

// vNum: a decimal number of 1..max digits without leading zero (or "0").
func vNum(name string, max int) string {
	n := 1 + vChoice(name+".len", max)
	s := vString(name, n)
	vAssume(vDigits(s))
	if n > 1 {
		vAssume(s[0] != '0')
	}
	return s
}

// vBase: a valid base version from shape skeletons with symbolic contents.
func vBase() (older string) {
	switch vChoice("shape", 9) {
	case 0:
		return ""
	case 1:
		return "v" + vNum("maj", 2) + "." + vNum("min", 2) + "." + vNum("pat", 2)
	case 2: // shortened forms
		if vChoice("short", 2) == 0 {
			return "v" + vNum("maj", 2)
		}
		return "v" + vNum("maj", 2) + "." + vNum("min", 2)
	case 3: // prerelease base
		pre := vString("pre", 1+vChoice("prelen", vParam("maxpre", 3)))
		older = "v" + vNum("maj", 1) + "." + vNum("min", 1) + "." + vNum("pat", 1) + "-" + pre
	case 4:
		return "v" + vNum("maj", 1) + "." + vNum("min", 1) + "." + vNum("pat", 2) + "+incompatible"
	case 5: // other build metadata
		meta := vString("meta", 1+vChoice("metalen", vParam("maxmeta", 3)))
		older = "v1.2." + vNum("pat", 1) + "+" + meta
	case 6: // prerelease and build metadata
		pre := vString("pre", 1+vChoice("prelen", 2))
		meta := vString("meta", 1+vChoice("metalen", 2))
		older = "v1.2.3-" + pre + "+" + meta
	case 7: // patch numbers whose increment carries, of any length
		k := 1 + vChoice("nines", vParam("maxnines", 20))
		return "v1.2." + strings.Repeat("9", k)
	case 8: // long patch number with a symbolic tail
		k := 18 + vChoice("longlen", 3)
		s := vString("longpat", 2)
		vAssume(vDigits(s))
		return "v1.2." + strings.Repeat("7", k) + s
	}
	vAssume(semver.IsValid(older))
	return older
}

func vRev() string {
	rev := vString("rev", 1+vChoice("revlen", vParam("maxrev", 4)))
	vAssume(vAlnum(rev))
	return rev
}

// vNextRelease: the release that follows a release-base pseudo-version.
func vIncPatch(canon string) string {
	i := strings.LastIndex(canon, ".") + 1
	return canon[:i] + vIncDecimal(canon[i:])
}

func vIncDecimal(d string) string {
	b := []byte(d)
	i := len(b) - 1
	for i >= 0 && b[i] == '9' {
		b[i] = '0'
		i--
	}
	if i >= 0 {
		b[i]++
		return string(b)
	}
	return "1" + string(b)
}

// VerifC18Roundtrip: a generated pseudo-version is valid, recognised, yields
// base, time and revision back, and sorts between its base and the next release.
func VerifC18Roundtrip() {
	older := vBase()
	major := semver.Major(older)
	if older == "" {
		major = "v" + vNum("major", 2)
	}
	t := vTime("t")
	rev := vRev()
	pv := PseudoVersion(major, older, t, rev)
	vReach("generated")
	vAssert("valid", semver.IsValid(pv))
	vAssert("is-pseudo", IsPseudoVersion(pv))

	base, err := PseudoVersionBase(pv)
	vAssert("base-ok", err == nil)
	wantBase := ""
	if older != "" {
		wantBase = semver.Canonical(older) + semver.Build(older)
	}
	vAssert("base", base == wantBase)

	r, err := PseudoVersionRev(pv)
	vAssert("rev-ok", err == nil)
	vAssert("rev", r == rev)

	tm, err := PseudoVersionTime(pv)
	vAssert("time-ok", err == nil)
	if err == nil {
		vAssert("time", tm.UTC().Format(vStampLayout) == t.UTC().Format(vStampLayout))
	}

	if older == "" {
		vReach("no-base")
		vAssert("below-vX.0.0", semver.Compare(pv, major+".0.0") < 0)
		return
	}
	vAssert("after-base", semver.Compare(older, pv) < 0)
	canon := semver.Canonical(older)
	if semver.Prerelease(canon) != "" {
		vReach("prerelease-base")
		release := canon[:strings.IndexByte(canon, '-')]
		vAssert("before-release", semver.Compare(pv, release) < 0)
	} else {
		vReach("release-base")
		vAssert("before-next", semver.Compare(pv, vIncPatch(canon)) < 0)
	}
}

// VerifC18TimeOrder: same base, later second => higher version, whatever the revisions.
func VerifC18TimeOrder() {
	older := vBase()
	major := semver.Major(older)
	if older == "" {
		major = "v1"
	}
	t1 := vTime("t1")
	t2 := vTime("t2")
	s1, s2 := t1.UTC().Format(vStampLayout), t2.UTC().Format(vStampLayout)
	vAssume(s1 < s2)
	rev1, rev2 := vRev(), vRev()
	pv1 := PseudoVersion(major, older, t1, rev1)
	pv2 := PseudoVersion(major, older, t2, rev2)
	vReach("ordered-times")
	vAssert("later-time-higher", semver.Compare(pv1, pv2) < 0)
}

func VerifC18Twin() {
	older := vBase()
	t := vTime("t")
	pv := PseudoVersion(semver.Major(older), older, t, "abc")
	vAssume(IsPseudoVersion(pv))
	vAssert("twin", false)
}
