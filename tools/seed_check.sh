#!/bin/bash
# usage: tools/seed_check.sh <property> <patch.diff> [tier]
# Applies a seeded change to /repo, runs the property's check, undoes the change.
# The committed evidence file (from the unchanged tree) is preserved.
P="$1"; D="$2"; T="${3:-quick}"
cd /verif
cp evidence/$P.json /tmp/evidence_$P.json.bak 2>/dev/null
git -C /repo apply "$D" || { echo "patch does not apply"; exit 2; }
trap 'git -C /repo checkout -- .; cp /tmp/evidence_'$P'.json.bak /verif/evidence/'$P'.json 2>/dev/null; rm -f /tmp/evidence_'$P'.json.bak' EXIT
./check "$P" "$T" ${4:-} 2>&1 | grep -E "^(VIOLATION|RESULT|INCONCLUSIVE|KNOWN|  harness)" | head -${LINES_MAX:-12}
