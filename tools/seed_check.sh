#!/bin/bash
# usage: tools/seed_check.sh <property> <patch.diff> [tier]
# Applies a seeded change to /repo, runs the property's check, undoes the change.
P="$1"; D="$2"; T="${3:-quick}"
cd /verif
git -C /repo apply "$D" || { echo "patch does not apply"; exit 2; }
trap 'git -C /repo checkout -- .' EXIT
./check "$P" "$T" ${4:-} 2>&1 | grep -E "^(VIOLATION|RESULT|INCONCLUSIVE|KNOWN|  harness)" | head -${LINES_MAX:-12}
