#!/bin/bash
# usage: tools/seed_keep.sh <property> <X> <seed-src-dir> <caught|missed> "<detected-by / note>"
P="$1"; X="$2"; S="$3"; ST="$4"; NOTE="$5"
D=/verif/seeded/$P-$X
mkdir -p $D
cp $S/patch.diff $D/patch.diff; cp $S/demo_test.go $D/demo_test.go; cp $S/notes.md $D/notes.md 2>/dev/null
python3 - "$P" "$X" "$ST" "$NOTE" "$D" <<'PY'
import json,sys
p,x,st,note,d=sys.argv[1:]
notes=open(d+'/notes.md').read() if True else ''
meta={"property":p,"seed":f"{p}-{x}","status":st,"needs_to_manifest":notes.strip().splitlines()[:12],
"confirmed_by":["tools/seed_verify.sh: demo passes on clean worktree; existing suite unchanged with patch; demo fails with patch"],
"checked_with":f"tools/seed_check.sh {p} seeded/{p}-{x}/patch.diff quick","result":note,"source":"independent sub-agent given only the property text and a scratch worktree"}
json.dump(meta,open(d+'/meta.json','w'),indent=1)
PY
echo kept $D
