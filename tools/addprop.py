#!/usr/bin/env python3
# usage: tools/addprop.py <spec.json>  — insert/replace a property entry in props.json and manifest_src.json, regenerate MANIFEST.json
import json,sys,subprocess
spec=json.load(open(sys.argv[1]))
props=json.load(open('/verif/props.json'))
props=[p for p in props if p['id']!=spec['id']]
props.append({k:spec[k] for k in ('id','harnesses','assumptions','outside_claim','stubs')})
props.sort(key=lambda p:p['id'])
json.dump(props,open('/verif/props.json','w'),indent=1)
src=json.load(open('/verif/manifest_src.json'))
src['not_applicable'].pop(spec['id'],None)
src['claimed'][spec['id']]={"text":spec['text'],"note":spec['note']}
json.dump(src,open('/verif/manifest_src.json','w'),indent=1)
subprocess.check_call(['python3','/verif/gen_manifest.py'])
