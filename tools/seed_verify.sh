#!/bin/bash
# usage: tools/seed_verify.sh <seed-dir> <worktree>
# Confirms a seeded change independently: the demo passes on the clean tree,
# the existing suite is unchanged with the patch, the demo fails with it.
set -u
export GOFLAGS=-mod=mod GOPROXY=off GOSUMDB=off GOTOOLCHAIN=local
S="$1"; W="$2"
cd "$W" || exit 2
git checkout -q -- . && git clean -fdq -e seed_out -e SEED_TASK.md
pkgdir=$(grep -m1 -oE '(semver|module|modfile|zip|sumdb/tlog|sumdb/note|sumdb/dirhash|sumdb/storage|sumdb)/?' "$S/demo_test.go" | head -1 | sed 's:/$::')
[ -n "${3:-}" ] && pkgdir="$3"
echo "demo package dir: $pkgdir"
cp "$S/demo_test.go" "$pkgdir/zz_seed_demo_test.go"
if go test -vet=off -count=1 ./$pkgdir >/tmp/sv_clean.txt 2>&1; then echo "clean: demo+pkg tests PASS"; else
  if grep -q "TestCertificateTransparency\|TestVCS" /tmp/sv_clean.txt && ! grep -E "^--- FAIL" /tmp/sv_clean.txt | grep -vq "TestCertificateTransparency\|TestVCS"; then echo "clean: demo PASS (only offline tests fail)"; else echo "clean: demo FAIL (bad seed)"; tail -20 /tmp/sv_clean.txt; fi; fi
rm "$pkgdir/zz_seed_demo_test.go"
git apply "$S/patch.diff" || { echo "patch does not apply"; exit 1; }
go build ./... || { echo "patched tree does not build"; exit 1; }
go test -vet=off -count=1 ./... 2>&1 | grep -E "^(ok|FAIL|--- FAIL)" | grep -v "TestVCS/" | sed 's/\t[0-9.]*s$//; s/ ([0-9.]*s)//' | sort > /tmp/sv_patched.txt
git apply -R "$S/patch.diff"; go test -vet=off -count=1 ./... 2>&1 | grep -E "^(ok|FAIL|--- FAIL)" | grep -v "TestVCS/" | sed 's/\t[0-9.]*s$//; s/ ([0-9.]*s)//' | sort > /tmp/sv_base.txt ; git apply "$S/patch.diff"
if diff -q /tmp/sv_base.txt /tmp/sv_patched.txt >/dev/null; then echo "patched: existing suite unchanged"; else echo "patched: existing suite DIFFERS"; diff /tmp/sv_base.txt /tmp/sv_patched.txt; fi
cp "$S/demo_test.go" "$pkgdir/zz_seed_demo_test.go"
if go test -vet=off -count=1 ./$pkgdir 2>&1 | grep -E "^--- FAIL" | grep -vq "TestCertificateTransparency\|TestVCS"; then echo "patched: demo FAILS (good)"; else echo "patched: demo does not fail (bad seed)"; fi
git checkout -q -- . && git clean -fdq -e seed_out -e SEED_TASK.md
