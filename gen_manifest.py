#!/usr/bin/env python3
# Generates MANIFEST.json from manifest_src.json (claimed checks + not_applicable).
import json,sys
src=json.load(open('/verif/manifest_src.json'))
props=[json.loads(l)['id'] for l in open('/verif/properties.jsonl')]
checks=[]
for pid in props:
    c=src['claimed'].get(pid)
    if not c: continue
    checks.append({
        "property_id":pid,
        "quick_cmd":f"./check {pid} quick",
        "thorough_cmd":f"./check {pid} thorough",
        "evidence_file":f"/verif/evidence/{pid}.json",
        "replay_cmd_template":f"./check {pid} --replay {{path}}",
        "engine":"gosym",
        "level_claimed":{"category":"model_checking","text":c['text'],"design_ref":c.get('design_ref','DESIGN.md §6')},
        "level_note":c['note'],
        "technique":c.get('technique',"bounded symbolic execution of the go/ssa form of the real functions; every assertion decided by an SMT solver (z3) over all inputs within the stated bounds; counterexamples replayed natively"),
    })
na=[{"property_id":p,"reason":src['not_applicable'][p]} for p in props if p in src['not_applicable']]
missing=[p for p in props if p not in src['claimed'] and p not in src['not_applicable']]
assert not missing, missing
m={"version":1,
   "setup_cmd":"./setup.sh",
   "hooks":{"guard":"verif","enable":"harnesses are injected as in-package overlay files built with -tags verif (go/packages Overlay for the symbolic engine, go test -overlay for native replay); /repo itself carries no hook code","baseline_off_cmd":"cd /repo && go test -vet=off -count=1 ./...","source_commits":[],"add_only":True},
   "engines":[{"name":"gosym","path":"/verif/gosym","serves_properties":[c['property_id'] for c in checks],"kind_free_text":"forking symbolic executor for go/ssa (x/tools v0.29.0) emitting SMT-LIB2 to z3 4.8.12 over a pipe; harnesses in /verif/harness"}],
   "checks":checks,
   "notes":src.get('notes',''),
   "not_applicable":na}
json.dump(m,open('/verif/MANIFEST.json','w'),indent=1)
print(len(checks),"claimed,",len(na),"not applicable")
