#!/bin/sh
# Builds the gosym engine offline from files on disk.
set -e
cd "$(dirname "$0")"
export GOFLAGS=-mod=mod GOPROXY=off GOSUMDB=off GOTOOLCHAIN=local
mkdir -p bin evidence .work
(cd gosym && go build -o ../bin/gosym .)
echo "gosym built"
